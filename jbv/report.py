"""Run context: obligations, violations, known findings, evidence and replay files."""
import json
import os
import re
import time

VERIF = os.path.dirname(os.path.dirname(os.path.abspath(__file__)))
EVIDENCE = os.environ.get("JBV_EVIDENCE") or os.path.join(VERIF, "evidence")
REPLAY = os.path.join(EVIDENCE, "replay")
KNOWN = os.path.join(VERIF, "known_findings.txt")


def load_known():
    """-> {property: {key: description}} for `open` entries; `fixed:` entries suppress nothing."""
    out = {}
    fixed = []
    if not os.path.exists(KNOWN):
        return out, fixed
    for line in open(KNOWN):
        line = line.strip()
        if not line or line.startswith("#"):
            continue
        m = re.match(r"^open property=(C\d+) key=(.*?) :: (.*)$", line)
        if m:
            out.setdefault(m.group(1), {})[m.group(2)] = m.group(3)
            continue
        if line.startswith("fixed:"):
            fixed.append(line)
    return out, fixed


class Ctx:
    def __init__(self, prop, tier, seed=0):
        self.prop = prop
        self.tier = tier
        self.seed = seed
        self.t0 = time.time()
        self.obligations = []      # dicts: rule, instance, loc, status, detail
        self.violations = []       # dicts: key, rule, fn, why, loc
        self.notes = []
        self.assumptions = []
        self.not_analysed = []
        self.units = {}
        self.rules = {}            # rule -> description
        self.samples = []

    # ---- rule bookkeeping
    def rule(self, rid, text):
        self.rules[rid] = text

    def ok(self, rule, instance, loc=None, detail=None):
        self.obligations.append({"rule": rule, "instance": instance, "loc": loc,
                                 "status": "discharged", "detail": detail})

    def fail(self, rule, fn, construct, why, loc=None, ordinal=0, extra=None):
        """Violation keyed without line numbers."""
        key = "%s|%s|%s|%d" % (rule, fn, construct, ordinal)
        # ordinal among equals: bump if the key already exists
        existing = {v["key"] for v in self.violations}
        while key in existing:
            ordinal += 1
            key = "%s|%s|%s|%d" % (rule, fn, construct, ordinal)
        v = {"key": key, "rule": rule, "fn": fn, "construct": construct, "why": why, "loc": loc}
        if extra:
            v["extra"] = extra
        self.violations.append(v)
        self.obligations.append({"rule": rule, "instance": "%s %s" % (fn, construct), "loc": loc,
                                 "status": "VIOLATED", "detail": why})
        return v

    def anchor(self, rule, what, found, floor=1, loc=None):
        """Fail closed when an anchor is missing or an instance count is below the counted floor."""
        if found < floor:
            self.fail(rule, what, "anchor", "anchor/instance floor not met: found %d, need >= %d "
                      "(a rule matching fewer sites than were confirmed by hand would pass vacuously)"
                      % (found, floor), loc)
            return False
        self.ok(rule, "anchor %s (%d >= %d)" % (what, found, floor), loc)
        return True

    def note(self, text):
        self.notes.append(text)

    def assume(self, text):
        if text not in self.assumptions:
            self.assumptions.append(text)

    def sample(self, obj):
        if len(self.samples) < 40:
            self.samples.append(obj)

    # ---- output
    def finish(self, explanation, trusted_base=None, replay_only=None):
        known, fixed = load_known()
        known = known.get(self.prop, {})
        os.makedirs(REPLAY, exist_ok=True)
        # remove old replay files of this property
        for f in os.listdir(REPLAY):
            if f.startswith(self.prop + "-"):
                try:
                    os.remove(os.path.join(REPLAY, f))
                except OSError:
                    pass
        new = []
        kf = []
        lines = []
        for v in self.violations:
            if v["key"] in known:
                kf.append(v)
                lines.append("KNOWN-FINDING: property=%s %s [%s] %s" % (
                    self.prop, known[v["key"]], v["key"], v.get("loc") or ""))
            else:
                new.append(v)
        for n, v in enumerate(new):
            path = os.path.join(REPLAY, "%s-%d.json" % (self.prop, n))
            with open(path, "w") as f:
                json.dump({"property": self.prop, "tier": self.tier, **v}, f, indent=1)
            lines.append("VIOLATION property=%s replay=%s" % (self.prop, path))
            lines.append("  %s  rule=%s  %s :: %s  -- %s" % (
                v.get("loc") or "?", v["rule"], v["fn"], v["construct"], v["why"]))
        stale = [k for k in known if k not in {v["key"] for v in self.violations}]
        for k in stale:
            lines.append("note: known finding no longer reported (fixed?): %s" % k)
        n_obl = len(self.obligations)
        n_dis = sum(1 for o in self.obligations if o["status"] == "discharged")
        wall = time.time() - self.t0
        by_rule = {}
        for o in self.obligations:
            r = by_rule.setdefault(o["rule"], {"obligations": 0, "discharged": 0,
                                               "text": self.rules.get(o["rule"], "")})
            r["obligations"] += 1
            r["discharged"] += o["status"] == "discharged"
        samples = self.samples or [
            {"rule": o["rule"], "instance": o["instance"], "loc": o["loc"], "status": o["status"],
             "detail": o["detail"]} for o in self.obligations[:25]]
        ev = {
            "property_id": self.prop,
            "tier": self.tier,
            "seed": self.seed,
            "level": "other",
            "coverage": {
                "explanation": explanation,
                "obligations": n_obl,
                "discharged": n_dis,
                "exhaustive": True,
                "rules": by_rule,
                "units_analysed": self.units,
                "samples": samples,
                "obligation_list": self.obligations if len(self.obligations) <= 400
                else self.obligations[:400],
                "violations_new": [v["key"] for v in new],
                "known_findings_reported": [v["key"] for v in kf],
                "known_findings_not_reproduced": stale,
                "fixed_entries": [l for l in fixed if "property=%s " % self.prop in l],
                "not_analysed": self.not_analysed,
                "notes": self.notes,
                "trusted_base": trusted_base or [],
                "checker_cmd": "./check %s --tier %s" % (self.prop, self.tier),
            },
            "assumptions": self.assumptions,
            "wall_s": round(wall, 3),
            "violations": len(new),
        }
        os.makedirs(EVIDENCE, exist_ok=True)
        tmp = os.path.join(EVIDENCE, "%s.json.tmp" % self.prop)
        with open(tmp, "w") as f:
            json.dump(ev, f, indent=1, default=str)
        os.replace(tmp, os.path.join(EVIDENCE, "%s.json" % self.prop))
        print("[%s] tier=%s rules=%d obligations=%d discharged=%d violations=%d known=%d wall=%.1fs" % (
            self.prop, self.tier, len(by_rule), n_obl, n_dis, len(new), len(kf), wall))
        for l in lines:
            print(l)
        return 1 if new else 0
