"""E4: path rules on one body -- dominating guards in normalised form, exits, loops."""
from .expr import ExprBuilder, show, walk, root_of


def _strip_try(e):
    """Try::branch(x) -> x ; returns (inner, was_try)"""
    if e[0] == "call" and e[1].endswith("::Try>::branch") or (e[0] == "call" and e[1].endswith("Try::branch")):
        return e[2][0], True
    return e, False


def norm_guard(body, eb, term, val):
    """Normalise a dominating switch outcome into (kind, expr):
       ('ok', E)    E: Result evaluated to Ok / Try::branch continue
       ('err', E)
       ('some', E) / ('none', E)
       ('true', B) / ('false', B)  boolean expression B
       ('eq', E, v) / ('ne', E, [vs])  other integer switches
    """
    d = eb.op(term["discr"])
    dty = term.get("discr_ty", "")
    if d[0] == "discr":
        inner = d[1]
        inner, was_try = _strip_try(inner)
        if was_try:
            # ControlFlow: 0 = Continue, 1 = Break
            if val == 0:
                return ("ok", inner)
            if val == 1:
                return ("err", inner)
            if isinstance(val, tuple) and val[0] == "not":
                if 1 in val[1] and 0 not in val[1]:
                    return ("ok", inner)
                if 0 in val[1] and 1 not in val[1]:
                    return ("err", inner)
        # Option / Result by type of the scrutinee
        ty = _type_of_discr(body, term)
        if ty and ty.startswith("std::option::Option"):
            some = (val == 1) or (isinstance(val, tuple) and 0 in val[1] and 1 not in val[1])
            none = (val == 0) or (isinstance(val, tuple) and 1 in val[1] and 0 not in val[1])
            # `xs.get(i)` is Some exactly when i < xs.len(): state it as the comparison, which is
            # what an index guard `if i < xs.len()` / `if xs.len() <= i { return }` says
            if (some or none) and inner[0] == "call" and (inner[1].endswith("<impl [T]>::get") or inner[1].endswith("Vec::<T, A>::get")) and len(inner[2]) == 2 \
                    and not (inner[2][1][0] == "agg" and "Range" in str(inner[2][1][1])) and not (inner[2][1][0] == "call" and "Range" in inner[2][1][1]):
                cmp_ = ("bin", "Lt", inner[2][1], ("len", inner[2][0]))
                return ("true" if some else "false", cmp_)
            if some:
                return ("some", inner)
            if none:
                return ("none", inner)
        if ty and ty.startswith("std::result::Result"):
            okk = (val == 0) or (isinstance(val, tuple) and 1 in val[1] and 0 not in val[1])
            err = (val == 1) or (isinstance(val, tuple) and 0 in val[1] and 1 not in val[1])
            if okk:
                return ("ok", inner)
            if err:
                return ("err", inner)
        return ("variant", inner, val)
    if dty == "bool":
        # a.saturating_sub(b) == 0  <=>  a <= b ;  != 0 / > 0  <=>  a > b
        if d[0] == "bin" and d[1] in ("Eq", "Ne", "Gt") and d[3][0] == "c" and d[3][1] == 0 and isinstance(d[3][1], int) and not isinstance(d[3][1], bool) \
                and d[2][0] == "call" and d[2][1].endswith("saturating_sub") and len(d[2][2]) == 2:
            a_, b_ = d[2][2]
            d = ("bin", "Le", a_, b_) if d[1] == "Eq" else ("bin", "Gt", a_, b_)
        if val == 0:
            return ("false", d)
        if isinstance(val, tuple) and val[0] == "not" and val[1] == [0]:
            return ("true", d)
        if val == 1:
            return ("true", d)
        if isinstance(val, tuple) and val[0] == "not" and val[1] == [1]:
            return ("false", d)
    if isinstance(val, tuple):
        return ("ne", d, val[1])
    return ("eq", d, val)


def _type_of_discr(body, term):
    """type of the place whose discriminant is switched on"""
    o = term["discr"]
    if o["k"] not in ("copy", "move"):
        return None
    l = o["place"]["local"]
    for bb, idx, item in body.defs().get(l, []):
        if idx != "term" and item["rv"]["k"] == "discriminant":
            return item["rv"].get("of")
    return None


def guards(body, bb, eb=None, _depth=0):
    """normalised dominating guards of block bb.
    Value-correlated refinement: a guard `ok(X)` / `some(X)` on a merged temporary X (several
    definitions, e.g. the return slot of an inlined helper, or `let r = if .. { Ok(v) } else {
    Err(e) }`) can only hold on paths through X's single Ok/Some definition, so the guards that
    dominate that definition are added."""
    eb = eb or ExprBuilder(body)
    out = []
    for sb, term, val in body.guards(bb):
        out.append(norm_guard(body, eb, term, val))
    if _depth < 3:
        extra = []
        for g in out:
            if g[0] in ("ok", "some") and len(g) > 1 and isinstance(g[1], tuple) and g[1][0] == "var" and isinstance(g[1][1], int):
                l = g[1][1]
                okd = []
                bad = False
                for dbb, didx, item in body.defs().get(l, []):
                    if body.is_cleanup(dbb):
                        continue
                    saved = (eb.cur_bb, eb.cur_idx)
                    e = eb.at(dbb, didx).call(item) if didx == "term" else eb.at(dbb, didx).rvalue(item["rv"])
                    eb.cur_bb, eb.cur_idx = saved
                    if e[0] == "agg" and (e[1].endswith("Result::Ok") or e[1].endswith("Option::Some")):
                        okd.append(dbb)
                    elif (e[0] == "agg" and (e[1].endswith("Result::Err") or e[1].endswith("Option::None"))) or (e[0] == "call" and "from_residual" in e[1]):
                        continue
                    else:
                        bad = True
                if len(okd) == 1 and not bad:
                    for g2 in guards(body, okd[0], eb, _depth + 1):
                        if g2 not in out and g2 not in extra:
                            extra.append(g2)
        # materialised condition: `let enabled = a && b; if !enabled { return }` - a guard on a bool
        # variable with several definitions implies the guards of the definition(s) that can give
        # it that value
        for g in out:
            if g[0] not in ("true", "false"):
                continue
            pos, e = bool_atoms(g)
            if not (e[0] == "var" and isinstance(e[1], int) and body.local_ty(e[1]) == "bool"):
                continue
            cands = []
            for dbb, didx, item in body.defs().get(e[1], []):
                if body.is_cleanup(dbb) or didx == "term":
                    cands = None
                    break
                saved = (eb.cur_bb, eb.cur_idx)
                v = eb.at(dbb, didx).rvalue(item["rv"])
                eb.cur_bb, eb.cur_idx = saved
                if v[0] == "c" and isinstance(v[1], bool):
                    if v[1] == pos:
                        cands.append((dbb, None))
                else:
                    cands.append((dbb, v))
            if cands and len(cands) == 1:
                dbb, v = cands[0]
                if v is not None:
                    g3 = ("true" if pos else "false", v)
                    if g3 not in out and g3 not in extra:
                        extra.append(g3)
                for g2 in guards(body, dbb, eb, _depth + 1):
                    if g2 not in out and g2 not in extra:
                        extra.append(g2)
        out = out + extra
    return out


def switch_outcomes(body, eb=None):
    """every switch arm with an unambiguous target, normalised: [(switch bb, guard, target bb)].
    Unlike `guards` (what dominates a block) this gives the *edge*, so a rule can ask where a
    particular outcome leads (must-reach rules)."""
    eb = eb or ExprBuilder(body)
    out = []
    for sb, t, arms in body.switch_edges():
        if body.is_cleanup(sb):
            continue
        cnt = {}
        for v, tg in arms:
            cnt[tg] = cnt.get(tg, 0) + 1
        for v, tg in arms:
            if cnt[tg] != 1:
                continue
            val = ("not", [x for x, _ in arms if x is not None]) if v is None else v
            eb.at(sb)
            out.append((sb, norm_guard(body, eb, t, val), tg))
    return out


def negate(g):
    k = g[0]
    flip = {"ok": "err", "err": "ok", "some": "none", "none": "some", "true": "false", "false": "true"}
    if k in flip:
        return (flip[k],) + g[1:]
    return g


def bool_atoms(g):
    """flatten a boolean guard into signed comparison atoms: [(positive, expr)];
    handles Not and the comparison operators by normalising Ne/Ge/... into a canonical pair."""
    kind, e = g[0], g[1]
    pos = kind == "true"
    while e[0] == "un" and e[1] == "Not":
        e = e[2]
        pos = not pos
    return pos, e


def return_exprs(body, eb=None):
    """for each return block reaching `return`: the expression(s) assigned to _0 that reach it.
    Returns list of (def bb, expr) over all non-cleanup definitions of _0."""
    eb = eb or ExprBuilder(body)
    out = []
    for bb, idx, item in body.defs().get(0, []):
        if body.is_cleanup(bb):
            continue
        e = eb.call(item) if idx == "term" else eb.rvalue(item["rv"])
        out.append((bb, e, item))
    return out


def is_err_of(e, variant_suffix=None):
    """e == Result::Err{X} (optionally X's aggregate label ends with variant_suffix), also
    recognises FromResidual::from_residual(..) as an error return"""
    if e[0] == "agg" and e[1].endswith("Result::Err"):
        if variant_suffix is None:
            return True
        inner = e[2][0]
        for x in walk(inner):
            if x[0] == "agg" and x[1].endswith(variant_suffix):
                return True
        return False
    if e[0] == "call" and "from_residual" in e[1]:
        return variant_suffix is None
    return False


def is_ok(e):
    return e[0] == "agg" and e[1].endswith("Result::Ok")


def truth_table(body, eb=None, max_atoms=6):
    """D-bool: for a loop-free body, enumerate the outcomes of its boolean conditions and follow the
    CFG: returns (atoms, {assignment tuple: reached-return-definition key}).
    atoms are the distinct comparison expressions (canonical strings); the return-definition key is
    the show()n expression assigned to _0 on that path.
    A condition may be switched on directly (`if a < b || c`) or first be *materialised* in a bool
    temporary with several definitions (`let t = a < b || c; if t`, or the return slot of an inlined
    helper): such temporaries are evaluated along the simulated path, so both forms give the same
    table."""
    from .expr import ExprBuilder as _EB, show as _show
    eb = eb or _EB(body)
    if body.natural_loops():
        return None, None
    # materialised booleans: bool locals with >= 2 definitions, all of them simple
    mat = {}
    for l, d in enumerate(body.locals):
        if d.get("ty") != "bool" or l == 0:
            continue
        ds = [x for x in body.defs().get(l, []) if not body.is_cleanup(x[0])]
        if len(ds) < 2 or any(x[1] == "term" for x in ds):
            continue
        mat[l] = ds

    def strip_not(d):
        pos = True
        while d[0] == "un" and d[1] == "Not":
            d = d[2]
            pos = not pos
        return d, pos
    atoms = []

    def atom_of(e):
        d, pos = strip_not(e)
        key = _show(d)
        if key not in atoms:
            atoms.append(key)
        return key, pos
    sw = {}
    for sb, t, arms in body.switch_edges():
        if t.get("discr_ty") != "bool":
            continue
        op = t["discr"]
        # chase plain copies back to a materialised boolean
        n_ = 0
        while op.get("k") in ("move", "copy") and not op["place"]["proj"] and op["place"]["local"] not in mat and n_ < 6:
            ds_ = [x for x in body.defs().get(op["place"]["local"], []) if not body.is_cleanup(x[0])]
            if len(ds_) == 1 and ds_[0][1] != "term" and ds_[0][2]["rv"]["k"] == "use":
                op = ds_[0][2]["rv"]["op"]
                n_ += 1
            else:
                break
        if op.get("k") in ("move", "copy") and not op["place"]["proj"] and op["place"]["local"] in mat:
            sw[sb] = ("mat", op["place"]["local"], t)
            continue
        key, pos = atom_of(eb.at(sb).op(t["discr"]))
        sw[sb] = ("atom", (key, pos), t)
    # values assigned to materialised booleans
    mat_rv = {}
    for l, ds in mat.items():
        for bb, idx, item in ds:
            rv = item["rv"]
            if rv["k"] == "use" and rv["op"].get("k") == "const" and "bool" in rv["op"]:
                mat_rv[(bb, idx)] = ("const", bool(rv["op"]["bool"]))
            elif rv["k"] == "use" and rv["op"].get("k") in ("move", "copy") and not rv["op"]["place"]["proj"] and rv["op"]["place"]["local"] in mat:
                mat_rv[(bb, idx)] = ("mat", rv["op"]["place"]["local"])
            else:
                e = eb.at(bb, idx).rvalue(rv)
                if e[0] == "c" and isinstance(e[1], bool):
                    mat_rv[(bb, idx)] = ("const", e[1])
                else:
                    mat_rv[(bb, idx)] = ("atom", atom_of(e))
    if len(atoms) > max_atoms:
        return None, None
    ret_defs = {}
    for bb, idx, item in body.defs().get(0, []):
        if body.is_cleanup(bb):
            continue
        e = eb.at(bb, idx).call(item) if idx == "term" else eb.rvalue(item["rv"])
        ret_defs[bb] = _show(e)
    table = {}
    n = len(atoms)
    for mask in range(1 << n):
        assign = tuple(bool(mask >> k & 1) for k in range(n))
        env = dict(zip(atoms, assign))
        menv = {}
        bb = 0
        last_ret = None
        steps = 0
        while steps < 500:
            steps += 1
            if bb in ret_defs:
                last_ret = ret_defs[bb]
            for idx, st in enumerate(body.blocks[bb]["stmts"]):
                v = mat_rv.get((bb, idx))
                if v is None or st["k"] != "assign":
                    continue
                l = st["place"]["local"]
                if v[0] == "const":
                    menv[l] = v[1]
                elif v[0] == "mat":
                    menv[l] = menv.get(v[1], False)
                else:
                    key, pos = v[1]
                    menv[l] = env[key] if pos else not env[key]
            t = body.blocks[bb]["term"]
            if t["k"] == "return":
                break
            if bb in sw:
                kind, what, tt = sw[bb]
                if kind == "mat":
                    val = menv.get(what, False)
                else:
                    key, pos = what
                    val = env[key] if pos else not env[key]
                want_v = 1 if val else 0
                nxt = tt["otherwise"]
                for v, tg in tt["targets"]:
                    if v == want_v:
                        nxt = tg
                bb = nxt
                continue
            ss = body.succs(bb)
            if not ss:
                break
            bb = ss[0]
        table[assign] = last_ret
    return atoms, table


def control_guards(body, bb, eb=None):
    """the boolean tests block bb is *control dependent* on within one pass through the code
    : every switch s with a successor t such that bb post-dominates t but not s.
    Dominating guards are a special case; what they miss - and this finds - are conditions whose
    edges merge before bb: the parts of `if a && b { continue }`, or `match` arms that share a
    block.  Returns normalised guards as `guards` does: (kind, expr), the outcome that leads
    towards bb."""
    from .expr import ExprBuilder as _EB
    eb = eb or _EB(body)
    dom = body.dominators()
    reach = [b for b in body.reachable() if not body.is_cleanup(b)]
    rs = set(reach)
    # post-dominators w.r.t. the normal returns (loops are assumed to terminate: a loop header is
    # post-dominated by what follows the loop; a `break` *after* a statement does not decide
    # whether that statement runs in this iteration, a `continue` before it does)
    pdom = body.post_dominators()
    # direct control dependence of any block x on a switch edge (s -> t): x post-dominates t (or
    # is t) and does not post-dominate s; then the transitive closure from bb (a store inside a
    # loop depends on the loop test, which depends on an early return in front of the loop)
    sw = [(sb, t, arms) for sb, t, arms in body.switch_edges() if sb in rs and not body.is_cleanup(sb)]
    # arms that cannot reach a return (the `unreachable` arm of an enum match, a panic) are
    # post-dominated by everything vacuously: they decide nothing
    rets = body.return_blocks()
    live = set(x for x in rs if any(body.can_reach(x, r) for r in rets))

    def direct(x):
        res = []
        for sb, t, arms in sw:
            if sb == x or x in pdom.get(sb, ()):
                continue
            for v, tg in arms:
                if tg not in rs or tg not in live:
                    continue
                if x == tg or x in pdom.get(tg, ()):
                    res.append((sb, t, arms, v))
        return res
    out = []
    seen = {bb}
    work = [bb]
    while work:
        x = work.pop()
        for sb, t, arms, v in direct(x):
            if t.get("discr_ty") == "bool":
                val = ("not", [y for y, _ in arms if y is not None]) if v is None else v
                saved = (eb.cur_bb, eb.cur_idx)
                eb.at(sb)
                g = norm_guard(body, eb, t, val)
                eb.cur_bb, eb.cur_idx = saved
                if g not in out:
                    out.append(g)
            if sb not in seen:
                seen.add(sb)
                work.append(sb)
    return out
