"""MIR model over the JSON facts exported by /verif/driver (engine E1 consumer).

Everything here is a static view of the type-checked program: bodies, CFG, dominators,
def-use, pretty printing.  Nothing is executed.
"""
import json
import os
import re
from collections import defaultdict


# --------------------------------------------------------------------------------------
# pretty printing


def fmt_place(p, body=None):
    s = "_%d" % p["local"]
    if body is not None:
        n = body.local_name(p["local"])
        if n:
            s = "%s/*%s*/" % (s, n)
    for e in p["proj"]:
        k = e["k"]
        if k == "deref":
            s = "(*%s)" % s
        elif k == "field":
            s = "%s.%s" % (s, e["name"] if e.get("name") is not None else e["i"])
        elif k == "index":
            s = "%s[_%d]" % (s, e["local"])
        elif k == "constindex":
            s = "%s[%s%d]" % (s, "-" if e["from_end"] else "", e["offset"])
        elif k == "downcast":
            s = "(%s as %s)" % (s, e.get("variant") or e["idx"])
        elif k == "subslice":
            s = "%s[%d..%s%d]" % (s, e["from"], "-" if e["from_end"] else "", e["to"])
        else:
            s = "%s<%s>" % (s, k)
    return s


def fmt_const(c):
    for k in ("f64", "f32", "int", "bool", "uint_str"):
        if k in c:
            v = "%s" % (c[k],)
            if "def" in c and "promoted" not in c:
                v += "{%s}" % c["def"]
            return "const %s_%s" % (v, c["ty"])
    if "str" in c:
        return "const %r" % c["str"]
    if "fn" in c:
        return "fn %s" % c["fn"]
    if "promoted" in c:
        return "promoted[%d]" % c["promoted"]
    if "def" in c:
        return "const {%s}" % c["def"]
    if c.get("zst"):
        return "const <zst %s>" % c["ty"]
    return "const <%s>" % c["ty"]


def fmt_op(o, body=None):
    k = o["k"]
    if k in ("copy", "move"):
        return ("move " if k == "move" else "") + fmt_place(o["place"], body)
    if k == "const":
        return fmt_const(o)
    return "<%s>" % k


def callee_name(c):
    """Best name of a callee: resolved instance path if known, else declared path."""
    if c["k"] != "fndef":
        return "<indirect>"
    return c.get("resolved") or c["def"]


def fmt_rv(rv, body=None):
    k = rv["k"]
    if k == "use":
        return fmt_op(rv["op"], body)
    if k == "ref":
        return "&%s%s" % ("mut " if rv["mut"] else "", fmt_place(rv["place"], body))
    if k == "rawptr":
        return "&raw %s" % fmt_place(rv["place"], body)
    if k == "copyforderef":
        return "deref_copy %s" % fmt_place(rv["place"], body)
    if k == "binop":
        return "%s(%s, %s)" % (rv["op"], fmt_op(rv["a"], body), fmt_op(rv["b"], body))
    if k == "unop":
        return "%s(%s)" % (rv["op"], fmt_op(rv["a"], body))
    if k == "cast":
        return "%s as %s (%s)" % (fmt_op(rv["op"], body), rv["ty"], rv["kind"])
    if k == "discriminant":
        return "discriminant(%s)" % fmt_place(rv["place"], body)
    if k == "aggregate":
        kd = rv["kind"]
        ops = ", ".join(fmt_op(o, body) for o in rv["ops"])
        if kd["k"] == "adt":
            names = kd["fields"]
            ops = ", ".join(
                "%s: %s" % (names[i] if i < len(names) else i, fmt_op(o, body))
                for i, o in enumerate(rv["ops"])
            )
            return "%s::%s { %s }" % (kd["def"], kd["variant"], ops)
        if kd["k"] == "closure":
            return "closure %s [%s]" % (kd["def"], ops)
        return "%s(%s)" % (kd["k"], ops)
    if k == "repeat":
        return "[%s; %s]" % (fmt_op(rv["op"], body), rv["count"])
    return "<%s %s>" % (k, rv.get("dbg", ""))


def fmt_term(t, body=None):
    k = t["k"]
    if k == "goto":
        return "goto -> bb%d" % t["target"]
    if k == "switch":
        arms = ", ".join("%s: bb%d" % (v, b) for v, b in t["targets"])
        return "switchInt(%s) -> [%s, otherwise: bb%d]" % (
            fmt_op(t["discr"], body), arms, t["otherwise"])
    if k == "call":
        c = t["callee"]
        name = callee_name(c) if c["k"] == "fndef" else "(%s)" % fmt_op(c["op"], body)
        return "%s = %s(%s) -> %s" % (
            fmt_place(t["dest"], body), name,
            ", ".join(fmt_op(a, body) for a in t["args"]),
            "bb%d" % t["target"] if t["target"] is not None else "!")
    if k == "assert":
        return "assert(%s%s, %s) -> bb%d" % (
            "" if t["expected"] else "!", fmt_op(t["cond"], body), t["msg"]["k"], t["target"])
    if k == "drop":
        return "drop(%s) -> bb%d" % (fmt_place(t["place"], body), t["target"])
    return k


# --------------------------------------------------------------------------------------


class Body:
    def __init__(self, j, program=None):
        self.j = j
        self.program = program
        self.path = j["path"]
        self.kind = j["kind"]
        self.blocks = j["blocks"]
        self.locals = j["hdr"]["locals"]
        self.argc = j["argc"]
        self.span = j["span"]
        self.file = self.span.get("file")
        self.line = self.span.get("line")
        self.parent = j.get("parent")
        self.direct_parent = j.get("direct_parent") or j.get("parent")
        self.impl = j.get("impl")
        self.promoted = j.get("promoted") or []
        self._defs = None
        self._preds = None
        self._dom = None
        self._pdom = None
        self._reach = None

    # -- basic info
    def local_name(self, l):
        return self.locals[l].get("name")

    def local_ty(self, l):
        return self.locals[l]["ty"]

    def is_derived(self):
        return bool(self.impl and self.impl.get("derived"))

    def loc(self, span=None):
        sp = span or self.span
        return "%s:%s" % (sp.get("file"), sp.get("line"))

    def arg_locals(self):
        return list(range(1, self.argc + 1))

    # -- CFG over non-cleanup blocks (unwind edges ignored)
    def is_cleanup(self, bb):
        return self.blocks[bb]["cleanup"]

    def succs(self, bb):
        t = self.blocks[bb]["term"]
        k = t["k"]
        if k == "goto":
            return [t["target"]]
        if k == "switch":
            out = [b for _, b in t["targets"]]
            out.append(t["otherwise"])
            # dedupe, keep order
            seen, r = set(), []
            for b in out:
                if b not in seen:
                    seen.add(b)
                    r.append(b)
            return r
        if k in ("call",):
            return [t["target"]] if t["target"] is not None else []
        if k in ("assert", "drop"):
            return [t["target"]]
        return []

    def preds(self):
        if self._preds is None:
            p = defaultdict(list)
            for bb in range(len(self.blocks)):
                if self.is_cleanup(bb):
                    continue
                for s in self.succs(bb):
                    p[s].append(bb)
            self._preds = p
        return self._preds

    def reachable(self):
        if self._reach is None:
            seen = {0}
            st = [0]
            while st:
                b = st.pop()
                for s in self.succs(b):
                    if s not in seen:
                        seen.add(s)
                        st.append(s)
            self._reach = seen
        return self._reach

    def rpo(self):
        seen, order = set(), []

        def dfs(b):
            stack = [(b, iter(self.succs(b)))]
            seen.add(b)
            while stack:
                node, it = stack[-1]
                adv = False
                for s in it:
                    if s not in seen:
                        seen.add(s)
                        stack.append((s, iter(self.succs(s))))
                        adv = True
                        break
                if not adv:
                    order.append(node)
                    stack.pop()

        dfs(0)
        order.reverse()
        return order

    def dominators(self):
        """dom[b] = set of blocks dominating b (including b)."""
        if self._dom is None:
            order = self.rpo()
            allb = set(order)
            dom = {b: set(allb) for b in order}
            dom[0] = {0}
            preds = self.preds()
            changed = True
            while changed:
                changed = False
                for b in order:
                    if b == 0:
                        continue
                    ps = [p for p in preds[b] if p in dom]
                    new = set(allb)
                    for p in ps:
                        new &= dom[p]
                    new.add(b)
                    if new != dom[b]:
                        dom[b] = new
                        changed = True
            self._dom = dom
        return self._dom

    def return_blocks(self):
        return [b for b in self.reachable() if self.blocks[b]["term"]["k"] == "return"]

    def diverging_blocks(self):
        out = []
        for b in self.reachable():
            t = self.blocks[b]["term"]
            if t["k"] == "unreachable" or (t["k"] == "call" and t["target"] is None):
                out.append(b)
        return out

    def post_dominators(self):
        """pdom[b] = set of blocks post-dominating b w.r.t. normal `return` exits.
        Diverging exits (panics) are ignored: a block that only diverges post-dominates nothing
        and is post-dominated by everything (vacuous)."""
        if self._pdom is None:
            reach = self.reachable()
            exits = self.return_blocks()
            allb = set(reach)
            pdom = {b: set(allb) for b in reach}
            for e in exits:
                pdom[e] = {e}
            changed = True
            order = list(reversed(self.rpo()))
            while changed:
                changed = False
                for b in order:
                    if b in exits:
                        continue
                    ss = [s for s in self.succs(b) if s in pdom]
                    if not ss:
                        continue
                    new = set(allb)
                    for s in ss:
                        new &= pdom[s]
                    new.add(b)
                    if new != pdom[b]:
                        pdom[b] = new
                        changed = True
            self._pdom = pdom
        return self._pdom

    def can_reach(self, src, dst, avoid=()):
        """Is there a path src ->* dst (length >= 0) avoiding blocks in `avoid`?"""
        if src in avoid:
            return False
        seen = {src}
        st = [src]
        while st:
            b = st.pop()
            if b == dst:
                return True
            for s in self.succs(b):
                if s not in seen and s not in avoid:
                    seen.add(s)
                    st.append(s)
        return False

    def can_reach_nontrivial(self, src, dst):
        """path of length >= 1 from src to dst (dst == src means: src lies on a cycle)"""
        seen = set()
        st = list(self.succs(src))
        while st:
            b = st.pop()
            if b == dst:
                return True
            if b in seen:
                continue
            seen.add(b)
            st.extend(self.succs(b))
        return False

    def reach_from(self, src, avoid=()):
        seen = set()
        st = [src]
        while st:
            b = st.pop()
            if b in seen or b in avoid:
                continue
            seen.add(b)
            st.extend(self.succs(b))
        return seen

    def reachable_without_edge(self, edge):
        """blocks reachable from entry when CFG edge (src, dst) is removed"""
        src, dst = edge
        seen = {0}
        st = [0]
        while st:
            b = st.pop()
            for s in self.succs(b):
                if b == src and s == dst:
                    continue
                if s not in seen:
                    seen.add(s)
                    st.append(s)
        return seen

    def edge_dominates(self, edge, bb):
        """every path from entry to bb uses the CFG edge (src, dst)"""
        if bb not in self.reachable():
            return False
        return bb not in self.reachable_without_edge(edge)

    def switch_edges(self):
        """(bb, discr operand, [(value|None for otherwise, target)])"""
        out = []
        for bb in sorted(self.reachable()):
            t = self.blocks[bb]["term"]
            if t["k"] == "switch":
                arms = [(v, tg) for v, tg in t["targets"]]
                arms.append((None, t["otherwise"]))
                out.append((bb, t, arms))
        return out

    def guards(self, bb):
        """switch outcomes that dominate bb: list of (switch bb, term, value or ('not', [values]))"""
        res = []
        for sb, t, arms in self.switch_edges():
            if sb == bb:
                continue
            tg_count = {}
            for v, tg in arms:
                tg_count[tg] = tg_count.get(tg, 0) + 1
            for v, tg in arms:
                if tg_count[tg] != 1:
                    continue  # two values lead to the same block: edge identity is ambiguous
                if self.edge_dominates((sb, tg), bb):
                    if v is None:
                        res.append((sb, t, ("not", [x for x, _ in arms if x is not None])))
                    else:
                        res.append((sb, t, v))
        return res

    def natural_loops(self):
        """list of (header, set(body blocks)) for back edges t->h with h dom t."""
        dom = self.dominators()
        loops = {}
        preds = self.preds()
        for b in self.reachable():
            for s in self.succs(b):
                if s in dom.get(b, ()):  # back edge b -> s
                    body = loops.setdefault(s, {s})
                    st = [b]
                    while st:
                        n = st.pop()
                        if n in body:
                            continue
                        body.add(n)
                        st.extend(p for p in preds[n] if p in dom)
        return sorted(loops.items())

    # -- statements
    def stmts(self, bb):
        return self.blocks[bb]["stmts"]

    def term(self, bb):
        return self.blocks[bb]["term"]

    def iter_stmts(self, cleanup=False):
        for bb, blk in enumerate(self.blocks):
            if blk["cleanup"] and not cleanup:
                continue
            for i, st in enumerate(blk["stmts"]):
                yield bb, i, st

    def iter_terms(self, cleanup=False):
        for bb, blk in enumerate(self.blocks):
            if blk["cleanup"] and not cleanup:
                continue
            yield bb, blk["term"]

    def calls(self, cleanup=False):
        for bb, t in self.iter_terms(cleanup):
            if t["k"] in ("call", "tailcall"):
                yield bb, t

    def defs(self):
        """local -> list of (bb, idx|'term', rvalue-or-term) for whole-local definitions."""
        if self._defs is None:
            d = defaultdict(list)
            for bb, i, st in self.iter_stmts(cleanup=True):
                if st["k"] == "assign" and not st["place"]["proj"]:
                    d[st["place"]["local"]].append((bb, i, st))
            for bb, t in self.iter_terms(cleanup=True):
                if t["k"] == "call" and not t["dest"]["proj"]:
                    d[t["dest"]["local"]].append((bb, "term", t))
            self._defs = d
        return self._defs

    def uses(self, local):
        """statements / terminators (non-cleanup) that read `local` (as operand, place base, index
        or call argument); drops and storage markers are not uses"""
        out = []

        def place_uses(pl):
            if pl["local"] == local:
                return True
            return any(e["k"] == "index" and e["local"] == local for e in pl["proj"])

        def op_uses(o):
            return isinstance(o, dict) and o.get("k") in ("copy", "move") and place_uses(o["place"])
        for bb, i, st in self.iter_stmts():
            if st["k"] == "assign":
                rv = st["rv"]
                hit = False
                for key in ("op", "a", "b"):
                    if op_uses(rv.get(key)):
                        hit = True
                if any(op_uses(o) for o in rv.get("ops", [])):
                    hit = True
                if "place" in rv and place_uses(rv["place"]):
                    hit = True
                # a store *through* the local (projection) reads it too
                pl = st["place"]
                if pl["proj"] and place_uses(pl):
                    hit = True
                if hit:
                    out.append((bb, i, st))
            elif st["k"] == "setdiscr" and place_uses(st["place"]):
                out.append((bb, i, st))
        for bb, t in self.iter_terms():
            k = t["k"]
            hit = False
            if k in ("call", "tailcall"):
                hit = any(op_uses(a) for a in t["args"])
                if t["callee"]["k"] != "fndef" and op_uses(t["callee"].get("op")):
                    hit = True
                if k == "call" and t["dest"]["proj"] and place_uses(t["dest"]):
                    hit = True
            elif k == "switch":
                hit = op_uses(t["discr"])
            elif k == "assert":
                hit = op_uses(t["cond"])
            if hit:
                out.append((bb, "term", t))
        return out

    def partial_stores(self, local):
        """assignments to a projection of `local`"""
        out = []
        for bb, i, st in self.iter_stmts():
            if st["k"] == "assign" and st["place"]["proj"] and st["place"]["local"] == local:
                out.append((bb, i, st))
        return out

    # -- printing
    def pretty(self, with_cleanup=False):
        out = ["fn %s  // %s" % (self.path, self.loc())]
        for l, d in enumerate(self.locals):
            nm = d.get("name")
            out.append("    let _%d: %s;%s" % (l, d["ty"], "  // " + nm if nm else ""))
        for bb, blk in enumerate(self.blocks):
            if blk["cleanup"] and not with_cleanup:
                continue
            out.append("  bb%d%s:" % (bb, " (cleanup)" if blk["cleanup"] else ""))
            for st in blk["stmts"]:
                if st["k"] == "assign":
                    out.append("    %s = %s;  // L%s" % (
                        fmt_place(st["place"], self), fmt_rv(st["rv"], self), st["span"].get("line")))
                elif st["k"] == "setdiscr":
                    out.append("    discriminant(%s) = %d;" % (fmt_place(st["place"], self), st["vidx"]))
                else:
                    out.append("    <%s>" % st["k"])
            out.append("    %s;  // L%s" % (fmt_term(blk["term"], self), blk["term"]["span"].get("line")))
        return "\n".join(out)


def anonymise(doc, mode):
    """Self-test aid (JBV_ANON=locals|all): consistently rename every local variable (mode `all`:
    also every parameter except self) in the facts, as a whole-crate rename refactor would.  A rule
    that fires on the anonymised program depends on an identifier and is a false alarm in waiting."""
    import hashlib
    bodies = doc["bodies"]
    by_path = {b["path"]: b for b in bodies}

    def top(b):
        while b.get("kind") == "Closure" and b.get("parent") in by_path:
            b = by_path[b["parent"]]
        return b
    keep = {}
    for b in bodies:
        t = top(b)
        if b is t:
            ps = set()
            if mode != "all":
                for l in range(1, b.get("argc", 0) + 1):
                    nm = b["hdr"]["locals"][l].get("name")
                    if nm:
                        ps.add(nm)
            ps.add("self")
            keep[b["path"]] = ps

    def ren(word, kp):
        if word in kp or not re.match(r"^[A-Za-z_]\w*$", word):
            return word
        return "v" + hashlib.md5(word.encode()).hexdigest()[:6]

    def ren_place_name(nm, kp):
        # capture names look like `x`, `*x`, `self.field`, `(*x).0`
        return re.sub(r"[A-Za-z_]\w*", lambda m: ren(m.group(0), kp) if m.start() == len(nm) - len(nm.lstrip("(*&")) else m.group(0), nm, count=1)

    def walk(o, kp):
        if isinstance(o, dict):
            if o.get("k") == "closure" and "captures" in o:
                for c in o["captures"]:
                    c["name"] = ren_place_name(c["name"], kp)
            if o.get("k") == "field" and o.get("name") is not None and "{closure" in str(o.get("of") or ""):
                o["name"] = ren_place_name(o["name"], kp)
            for v in o.values():
                walk(v, kp)
        elif isinstance(o, list):
            for v in o:
                walk(v, kp)
    for b in bodies:
        kp = keep.get(top(b)["path"], {"self"})
        for d in b["hdr"]["locals"]:
            if d.get("name"):
                d["name"] = ren(d["name"], kp)
        walk(b.get("blocks"), kp)
        for pj in b.get("promoted") or []:
            for d in (pj.get("hdr") or {}).get("locals", []):
                if d.get("name"):
                    d["name"] = ren(d["name"], kp)
            walk(pj.get("blocks"), kp)


_FIELD_TABLE = None


def canonicalise_fields(doc):
    """Undo *renames* of struct fields relative to the pinned tree (jbv/pinned_fields.json: per ADT and
    variant the field names by position).  If a variant of the table has the same number of fields
    and a field whose name is not among the recorded ones sits where a recorded name is now missing,
    the field gets its recorded name back: in the ADT facts, in every place projection (they carry
    the ADT path and the field index) and in aggregate literals.  A pure reordering is left alone."""
    global _FIELD_TABLE
    if _FIELD_TABLE is None:
        try:
            _FIELD_TABLE = json.load(open(os.path.join(os.path.dirname(os.path.abspath(__file__)), "pinned_fields.json")))
        except OSError:
            _FIELD_TABLE = {}
    table = _FIELD_TABLE
    ren = {}   # (adt path, variant name or index, field index) -> recorded name
    for a in doc.get("adts", []):
        rec = table.get(a["path"])
        if not rec:
            continue
        for vi, v in enumerate(a.get("variants", [])):
            r = rec.get(v["name"])
            act = [f["name"] for f in v["fields"]]
            if r is None or len(r) != len(act) or act == r or sorted(act) == sorted(r):
                continue
            for i, (x, y) in enumerate(zip(act, r)):
                if x != y and x not in r and y not in act:
                    ren[(a["path"], v["name"], i)] = y
                    ren[(a["path"], None, i)] = y if len(a["variants"]) == 1 else ren.get((a["path"], None, i))
                    v["fields"][i]["name"] = y
    if not ren:
        return

    def walk(o, variant=None):
        if isinstance(o, dict):
            if o.get("k") == "field" and "i" in o and o.get("of"):
                y = ren.get((o["of"], None, o["i"]))
                if y:
                    o["name"] = y
            if o.get("k") == "adt" and "fields" in o and o.get("def"):
                for i in range(len(o["fields"])):
                    y = ren.get((o["def"], o.get("variant"), i)) or ren.get((o["def"], None, i))
                    if y:
                        o["fields"][i] = y
            for v in o.values():
                walk(v)
        elif isinstance(o, list):
            for v in o:
                walk(v)
    for b in doc["bodies"]:
        walk(b.get("blocks"))
        for pj in b.get("promoted") or []:
            walk(pj.get("blocks"))


_PARAM_TABLE = None


def module_renames(doc):
    """undo the rename / split of a *module*: a module that is not in the pinned tree
    (jbv/pinned_mods.json) whose functions, read under the name of a pinned module, are exactly
    functions the pinned tree has and the current tree lacks, is that module (a renamed file, or
    items moved out into a new file).  Returns [(new, pinned)], shortest new path first; the
    caller substitutes the path prefix in the whole fact text.  Only undoes moves: a module whose
    functions are genuinely new recovers nothing and is left alone."""
    here = os.path.dirname(os.path.abspath(__file__))
    try:
        sigs = json.load(open(os.path.join(here, "pinned_sigs.json")))
        pmods = set(json.load(open(os.path.join(here, "pinned_mods.json"))))
    except OSError:
        return []
    cur = set(b["path"] for b in doc["bodies"] if b.get("kind") != "Closure")
    missing = set(m for m in sigs if m not in cur)
    if not missing:
        return []
    out = []
    newmods = sorted((m for m in doc.get("mods", []) if m and m not in pmods), key=lambda m: (m.count("::"), m))
    for nm in newmods:
        # already covered by a parent mapping?
        eff = nm
        for a, b_ in out:
            if eff == a or eff.startswith(a + "::"):
                eff = b_ + eff[len(a):]
        if eff in pmods:
            continue
        rx = re.compile(r"(?<![\w:])" + re.escape(nm) + r"::")
        mine = [p for p in cur if rx.search(p)]
        if not mine:
            continue
        best = []
        for lm in sorted(pmods):
            if not lm:
                continue
            mapped = [rx.sub(lambda _m, lm=lm: lm + "::", p) for p in mine]
            if any(q in cur for q in mapped):
                continue
            rec = sum(1 for q in mapped if q in missing)
            if rec:
                best.append((rec, lm))
        if not best:
            continue
        best.sort(reverse=True)
        if len(best) > 1 and best[0][0] == best[1][0]:
            continue
        out.append((nm, best[0][1]))
    return out


def adt_renames(doc):
    """undo the rename of a struct / enum: an ADT that is not in the pinned tree
    (jbv/pinned_fields.json) while exactly one pinned ADT of the same module with the same
    variants and field names is missing (or, failing that, the module lost exactly one ADT and
    gained exactly one with the same number of fields) is that ADT under a new name."""
    here = os.path.dirname(os.path.abspath(__file__))
    try:
        pf = json.load(open(os.path.join(here, "pinned_fields.json")))
    except OSError:
        return []
    cur = {}
    for a in doc.get("adts", []):
        if "::_::" in a["path"] or a["path"].startswith("<"):
            continue
        cur[a["path"]] = a
    missing = [m for m in pf if m not in cur and "::_::" not in m and not m.startswith("<")]
    new = [n for n in cur if n not in pf]
    if not missing or not new:
        return []

    def shape(a):
        return {v["name"]: [f["name"] for f in v["fields"]] for v in a.get("variants", [])}
    out = []
    taken = set()
    for n in sorted(new):
        mod = n.rsplit("::", 1)[0] if "::" in n else ""
        try:
            sh = shape(cur[n])
        except (KeyError, TypeError):
            continue
        # the variant of a struct carries the struct's own name: compare field lists only
        shv = sorted(sh.values())
        cands = [m for m in missing if (m.rsplit("::", 1)[0] if "::" in m else "") == mod and m not in taken
                 and sorted(pf[m].values()) == shv]
        if len(cands) != 1:
            mm = [m for m in missing if (m.rsplit("::", 1)[0] if "::" in m else "") == mod and m not in taken]
            nn = [x for x in new if (x.rsplit("::", 1)[0] if "::" in x else "") == mod]
            cands = mm if len(mm) == 1 and len(nn) == 1 and sorted(len(v) for v in pf[mm[0]].values()) == sorted(len(v) for v in shv) else []
        if len(cands) == 1:
            out.append((n, cands[0]))
            taken.add(cands[0])
    return out


UNSIGNED = ("usize", "u8", "u16", "u32", "u64", "u128")


def prune_trivial_switches(doc):
    """`match n { 0..=2 => .. }` on an unsigned n compiles to `t = Le(0, n); switchInt(t)` followed
    by the real test: the false edge of the first comparison is infeasible but gives the arm a
    second predecessor, so no guard dominates it.  A switch on a boolean that the same block
    computes as `0 <= x` / `x >= 0` over an unsigned type becomes a goto to its true target."""
    n = 0
    for b in doc.get("bodies", []):
        for blk in b.get("blocks", []):
            t = blk.get("term") or {}
            if t.get("k") != "switch" or t.get("discr_ty") != "bool":
                continue
            d = t.get("discr") or {}
            pl = d.get("place") or {}
            if d.get("k") not in ("move", "copy") or pl.get("proj"):
                continue
            st = None
            for s_ in reversed(blk.get("stmts", [])):
                if s_.get("k") == "assign" and s_["place"].get("local") == pl.get("local") and not s_["place"].get("proj"):
                    st = s_
                    break
            if st is None or st["rv"].get("k") != "binop":
                continue
            rv = st["rv"]
            a, bb_ = rv.get("a") or {}, rv.get("b") or {}

            def zero_u(o):
                return o.get("k") == "const" and o.get("ty") in UNSIGNED and o.get("int") == 0
            always = (rv.get("op") == "Le" and zero_u(a)) or (rv.get("op") == "Ge" and zero_u(bb_))
            if not always:
                continue
            # targets: [[0, false_target]], otherwise = true target
            blk["term"] = {"k": "goto", "target": t.get("otherwise"), "span": t.get("span")}
            n += 1
    return n


def trait_renames(doc):
    """undo the rename / move of a crate-local *trait*: a trait path that occurs in no pinned
    function path, while exactly one pinned local trait with the same set of method names has
    vanished, is that trait ([(new path, pinned path)]; `IterExt` moved to `frame_iter::FrameIterExt`)"""
    here = os.path.dirname(os.path.abspath(__file__))
    try:
        sigs = json.load(open(os.path.join(here, "pinned_sigs.json")))
        pmods = set(json.load(open(os.path.join(here, "pinned_mods.json"))))
    except OSError:
        return []
    rx = re.compile(r"^<(.+) as ((?:\w+::)*\w+)(?:<.*>)?>::(\w+)$")
    mods = set(doc.get("mods", [])) | pmods

    def local(tp):
        return "::" not in tp or tp.rsplit("::", 1)[0] in mods

    def collect(paths):
        d = {}
        for pth in paths:
            m = rx.match(pth)
            if m and local(m.group(2)) and not m.group(2).startswith(("std::", "core::", "serde::", "alloc::")):
                d.setdefault(m.group(2), set()).add(m.group(3))
        return d
    cur = collect(b["path"] for b in doc["bodies"] if b.get("kind") != "Closure")
    pin = collect(sigs)
    gone = {t: ms for t, ms in pin.items() if t not in cur}
    fresh = {t: ms for t, ms in cur.items() if t not in pin}
    out = []
    for t2, ms2 in sorted(fresh.items()):
        cands = [t for t, ms in gone.items() if ms == ms2 and t not in [b_ for _a, b_ in out]]
        if len(cands) == 1:
            out.append((t2, cands[0]))
    return out


def flatten_new_nested_structs(doc):
    """undo the grouping of some fields of a pinned struct into a nested *new* struct
    (`SpeechGenerator { spectrum, lf0, lpf, .. }` -> `{ trajectories: Trajectories { spectrum, lf0,
    lpf }, .. }`): when a pinned struct lost fields f.. and gained a field g whose type is a struct
    that is not in the pinned tree and has fields named f.., every place `x.g.f` is read as `x.f`
    and a literal `A { g: B { f: v, .. }, .. }` as `A { f: v, .. }`."""
    global _FIELD_TABLE
    if _FIELD_TABLE is None:
        try:
            _FIELD_TABLE = json.load(open(os.path.join(os.path.dirname(os.path.abspath(__file__)), "pinned_fields.json")))
        except OSError:
            _FIELD_TABLE = {}
    table = _FIELD_TABLE
    adts = {a["path"]: a for a in doc.get("adts", [])}
    groups = {}     # (A, g) -> (B, set of field names)
    again = doc.get("_flatten_groups")
    if again:
        groups = {tuple(k.split("|", 1)): (v[0], set(v[1]), v[2]) for k, v in again.items()}
    for a in ([] if again else doc.get("adts", [])):
        rec = table.get(a["path"])
        if not rec or len(a.get("variants", [])) != 1 or a.get("kind") != "struct":
            continue
        pinned = list(rec.values())[0]
        act = a["variants"][0]["fields"]
        names = [f["name"] for f in act]
        lost = [f for f in pinned if f not in names]
        if not lost:
            continue
        for f in act:
            if f["name"] in pinned:
                continue
            bpath = (f.get("info") or {}).get("def")
            b = adts.get(bpath)
            if b is None or bpath in table or len(b.get("variants", [])) != 1:
                continue
            bnames = [x["name"] for x in b["variants"][0]["fields"]]
            inner = [x for x in lost if x in bnames]
            if inner:
                groups[(a["path"], f["name"])] = (bpath, set(inner), pinned)
    if not groups:
        return []

    def fix_proj(proj):
        out = []
        i = 0
        while i < len(proj):
            el = proj[i]
            nxt = proj[i + 1] if i + 1 < len(proj) else None
            g = groups.get((el.get("of"), el.get("name"))) if el.get("k") == "field" else None
            if g and nxt is not None and nxt.get("k") == "field" and nxt.get("of") == g[0] and nxt.get("name") in g[1]:
                e2 = dict(nxt)
                e2["of"] = el["of"]
                e2["i"] = g[2].index(nxt["name"])
                out.append(e2)
                i += 2
                continue
            out.append(el)
            i += 1
        return out

    def walk(o):
        if isinstance(o, dict):
            if isinstance(o.get("proj"), list) and "local" in o:
                o["proj"] = fix_proj(o["proj"])
            for v in o.values():
                walk(v)
        elif isinstance(o, list):
            for v in o:
                walk(v)
    for b in doc["bodies"]:
        walk(b.get("blocks"))
        for pj in b.get("promoted") or []:
            walk(pj.get("blocks"))
        # literals: A { g: move _t, .. } with _t = B { f: .., .. } defined once in this body
        defs = {}
        for blk in b.get("blocks") or []:
            for st in blk["stmts"]:
                if st.get("k") == "assign" and not st["place"].get("proj"):
                    defs.setdefault(st["place"]["local"], []).append(st)
        for blk in b.get("blocks") or []:
            for st in blk["stmts"]:
                rv = st.get("rv") or {}
                if st.get("k") != "assign" or rv.get("k") != "aggregate" or rv["kind"].get("k") != "adt":
                    continue
                A = rv["kind"].get("def")
                fields = list(rv["kind"].get("fields") or [])
                ops = list(rv.get("ops") or [])
                changed = False
                for k in range(len(fields) - 1, -1, -1):
                    g = groups.get((A, fields[k]))
                    if not g or k >= len(ops):
                        continue
                    op = ops[k]
                    if op.get("k") not in ("move", "copy") or op["place"].get("proj"):
                        continue
                    ds = defs.get(op["place"]["local"], [])
                    if len(ds) != 1 or (ds[0]["rv"].get("k") != "aggregate") or ds[0]["rv"]["kind"].get("def") != g[0]:
                        continue
                    inner = ds[0]["rv"]
                    fields[k:k + 1] = list(inner["kind"].get("fields") or [])
                    ops[k:k + 1] = list(inner.get("ops") or [])
                    changed = True
                if changed:
                    rv["kind"]["fields"] = fields
                    rv["ops"] = ops
    if again:
        return sorted(again)
    doc["_flatten_groups"] = {"%s|%s" % k: [v[0], sorted(v[1]), v[2]] for k, v in groups.items()}
    # the struct facts themselves
    for (A, gname), (B, inner, pinned) in groups.items():
        a = adts[A]
        fs = a["variants"][0]["fields"]
        bf = {x["name"]: x for x in adts[B]["variants"][0]["fields"]}
        new_fs = []
        for f in fs:
            if f["name"] == gname:
                new_fs.extend(bf[n] for n in adts[B]["variants"][0]["fields"] and [x["name"] for x in adts[B]["variants"][0]["fields"]] if n in inner)
                rest = [x for x in adts[B]["variants"][0]["fields"] if x["name"] not in inner]
                if rest:
                    new_fs.append(f)
            else:
                new_fs.append(f)
        a["variants"][0]["fields"] = new_fs
    return sorted("%s.%s -> %s" % (A, g, B) for (A, g), (B, _i, _p) in groups.items())


def canonicalise_fn_renames(doc):
    """undo the rename of a private function: a function that is not in the pinned tree, while
    exactly one pinned function of the same impl / module with the same signature is missing, is
    that function under a new name (jbv/pinned_sigs.json; only used to undo renames - a function
    that is genuinely new has no missing twin and is inlined instead)"""
    here = os.path.dirname(os.path.abspath(__file__))
    try:
        sigs = json.load(open(os.path.join(here, "pinned_sigs.json")))
    except OSError:
        return {}
    cur = {b["path"]: b for b in doc["bodies"] if b.get("kind") != "Closure"}
    missing = [m for m in sigs if m not in cur]
    if not missing:
        return {}
    ren = {}
    taken = set()
    for n, b in sorted(cur.items()):
        if n in sigs:
            continue
        locs = b["hdr"]["locals"]
        argc = b.get("argc", 0)
        sig = [locs[0]["ty"], [locs[i]["ty"] for i in range(1, argc + 1)]]
        prefix = n.rsplit("::", 1)[0]
        cands = [m for m in missing if m.rsplit("::", 1)[0] == prefix and sigs[m] == sig and m not in taken]
        if len(cands) == 1:
            ren[n] = cands[0]
            taken.add(cands[0])
    # an associated function turned into a free function of the same module (or the reverse, or
    # moved to another impl of that module): same name, same signature, same module
    pmods = None
    try:
        pmods = set(json.load(open(os.path.join(here, "pinned_mods.json"))))
    except OSError:
        pmods = set()

    def module_of(path):
        segs = path.split("::")
        best = ""
        for k in range(1, len(segs)):
            cand = "::".join(segs[:k])
            if cand in pmods:
                best = cand
        return best
    for n, b in sorted(cur.items()):
        if n in sigs or n in ren or n.startswith("<"):
            continue
        locs = b["hdr"]["locals"]
        argc = b.get("argc", 0)
        sig = [locs[0]["ty"], [locs[i]["ty"] for i in range(1, argc + 1)]]
        tail = n.rsplit("::", 1)[-1]
        cands = [m for m in missing if m not in taken and not m.startswith("<") and m.rsplit("::", 1)[-1] == tail
                 and sigs[m] == sig and module_of(m) == module_of(n)]
        if len(cands) == 1:
            ren[n] = cands[0]
            taken.add(cands[0])
    # a private function replaced by one of another signature (a parameter added, an index turned
    # into the indexed element): when an impl / module lost exactly one pinned function and gained
    # exactly one new one with the same return type, the new one stands in for it - the rules of
    # that anchor then judge it by the roles of its parameters (and fail closed if they cannot)
    left_new = {}
    for n, b in sorted(cur.items()):
        if n not in sigs and n not in ren:
            left_new.setdefault(n.rsplit("::", 1)[0], []).append(n)
    left_missing = {}
    for m in missing:
        if m not in taken:
            left_missing.setdefault(m.rsplit("::", 1)[0], []).append(m)
    for prefix, ns in left_new.items():
        ms = left_missing.get(prefix, [])
        if len(ns) == 1 and len(ms) == 1:
            b = cur[ns[0]]
            if b["hdr"]["locals"][0]["ty"] == sigs[ms[0]][0]:
                ren[ns[0]] = ms[0]
                taken.add(ms[0])
    if not ren:
        return {}
    pats = [(re.compile(r"(?<![\w:])" + re.escape(n) + r"(?![\w])"), m) for n, m in ren.items()]

    def walk(o):
        if isinstance(o, dict):
            for k, v in list(o.items()):
                if isinstance(v, str):
                    for rx, m in pats:
                        if rx.search(v):
                            v = rx.sub(lambda _m, m=m: m, v)
                    o[k] = v
                else:
                    walk(v)
        elif isinstance(o, list):
            for i, v in enumerate(o):
                if isinstance(v, str):
                    for rx, m in pats:
                        if rx.search(v):
                            v = rx.sub(lambda _m, m=m: m, v)
                    o[i] = v
                else:
                    walk(v)
    walk(doc)
    return ren


def canonicalise_params(doc):
    """Undo parameter *renames* relative to the pinned tree (jbv/param_names.json, by position): if a
    function of the table has the same arity but a parameter whose name is not among the recorded
    ones, that parameter gets its recorded name back - in the function, in the closures nested in
    it, and in their capture lists.  A pure reordering (same name set) is left alone.  New
    functions are not in the table.  Rules can therefore speak about `alpha`, `stream_index`, ..
    without firing on a rename."""
    global _PARAM_TABLE
    if _PARAM_TABLE is None:
        try:
            _PARAM_TABLE = json.load(open(os.path.join(os.path.dirname(os.path.abspath(__file__)), "param_names.json")))
        except OSError:
            _PARAM_TABLE = {}
    table = _PARAM_TABLE
    bodies = doc["bodies"]
    by_path = {b["path"]: b for b in bodies}

    def top(b):
        n = 0
        while b.get("kind") == "Closure" and b.get("parent") in by_path and n < 10:
            b = by_path[b["parent"]]
            n += 1
        return b
    maps = {}
    for b in bodies:
        rec = table.get(b["path"])
        if rec is None or b.get("kind") == "Closure" or len(rec) != b.get("argc", 0):
            continue
        locs = b["hdr"]["locals"]
        act = [locs[i + 1].get("name") for i in range(len(rec))]
        if act == rec or sorted(x or "" for x in act) == sorted(x or "" for x in rec):
            continue
        m = {}
        for a, r in zip(act, rec):
            if a and r and a != r and a not in rec and r not in act:
                m[a] = r
        if m:
            maps[b["path"]] = m
    if not maps:
        return

    def ren_place_name(nm, m):
        mm = re.match(r"^([(*&]*)([A-Za-z_]\w*)(.*)$", nm)
        if mm and mm.group(2) in m:
            return mm.group(1) + m[mm.group(2)] + mm.group(3)
        return nm

    def walk(o, m):
        if isinstance(o, dict):
            if o.get("k") == "closure" and "captures" in o:
                for c in o["captures"]:
                    c["name"] = ren_place_name(c["name"], m)
            if o.get("k") == "field" and o.get("name") is not None and "{closure" in str(o.get("of") or ""):
                o["name"] = ren_place_name(o["name"], m)
            for v in o.values():
                walk(v, m)
        elif isinstance(o, list):
            for v in o:
                walk(v, m)
    for b in bodies:
        m = maps.get(top(b)["path"])
        if not m:
            continue
        shadow = set()
        if b.get("kind") == "Closure":
            # a closure's own locals / parameters with the same name shadow the captured one
            pass
        for d in b["hdr"]["locals"]:
            if d.get("name") in m:
                d["name"] = m[d["name"]]
        walk(b.get("blocks"), m)
        for pj in b.get("promoted") or []:
            walk(pj.get("blocks"), m)


def canonicalise_param_order(doc):
    """Undo a pure *reordering* of the parameters of a function of the pinned tree (same names,
    other order; jbv/param_names.json): the parameter locals of the body are renumbered into the
    pinned order and the arguments of every call site are permuted the same way, so rules that
    speak about `the first argument of Excitation::start` keep reading the same value."""
    global _PARAM_TABLE
    if _PARAM_TABLE is None:
        try:
            _PARAM_TABLE = json.load(open(os.path.join(os.path.dirname(os.path.abspath(__file__)), "param_names.json")))
        except OSError:
            _PARAM_TABLE = {}
    table = _PARAM_TABLE
    perms = {}
    for b in doc["bodies"]:
        rec = table.get(b["path"])
        argc = b.get("argc", 0)
        if rec is None or b.get("kind") == "Closure" or len(rec) != argc or argc < 2:
            continue
        locs = b["hdr"]["locals"]
        act = [locs[i + 1].get("name") for i in range(argc)]
        if act == rec or None in act or len(set(act)) != argc or sorted(act) != sorted(x or "" for x in rec):
            continue
        # act[i] is at pinned position rec.index(act[i])
        perm = [rec.index(a) for a in act]
        perms[b["path"]] = perm
        from .inline import _remap_locals
        f = lambda l, perm=perm, argc=argc: (perm[l - 1] + 1) if 1 <= l <= argc else l
        _remap_locals(b.get("blocks"), f)
        for pj in b.get("promoted") or []:
            _remap_locals(pj.get("blocks"), f)
        new_locs = list(locs)
        for i in range(argc):
            new_locs[perm[i] + 1] = locs[i + 1]
        b["hdr"]["locals"] = new_locs
        for vd in b["hdr"].get("var_debug_info") or []:
            _remap_locals(vd, f)
    if not perms:
        return {}
    for b in doc["bodies"]:
        for blk in list(b.get("blocks") or []) + [x for pj in (b.get("promoted") or []) for x in pj.get("blocks", [])]:
            t = blk.get("term") or {}
            if t.get("k") != "call":
                continue
            c = t.get("callee") or {}
            pth = c.get("resolved") or c.get("def")
            perm = perms.get(pth) if c.get("k") == "fndef" else None
            if perm is None or len(t.get("args", [])) != len(perm):
                continue
            args = list(t["args"])
            for i, a in enumerate(t["args"]):
                args[perm[i]] = a
            t["args"] = args
            if len(t.get("arg_tys") or []) == len(perm):
                tys = list(t["arg_tys"])
                for i, a in enumerate(t["arg_tys"]):
                    tys[perm[i]] = a
                t["arg_tys"] = tys
    return perms


class Program:
    def __init__(self, doc):
        self.doc = doc
        self.crate = doc["crate"]
        self.bodies = {}
        self.inlined_bodies = {}
        for bj in doc["bodies"]:
            b = Body(bj, self)
            if bj.get("inlined_away"):
                # a helper that does not exist in the pinned tree and was inlined into all its
                # callers (jbv/inline.py): its code is judged where it now lives
                self.inlined_bodies[b.path] = b
                continue
            # paths are unique in practice; keep the first and count duplicates
            if b.path in self.bodies:
                k = 2
                while "%s#%d" % (b.path, k) in self.bodies:
                    k += 1
                b.path = "%s#%d" % (b.path, k)
            self.bodies[b.path] = b
        self.adts = {a["path"]: a for a in doc["adts"]}
        self.impls = doc["impls"]
        self.consts = {c["path"]: c for c in doc["consts"]}
        self.statics = doc["statics"]
        self.unsafe = doc["unsafe"]
        self._children = None

    @classmethod
    def load(cls, path):
        with open(path) as f:
            text = f.read()
        # serde's derive refers to serde through `extern crate serde as _serde` inside an anonymous
        # const; rustc prints such paths through the first module that declares it
        # (`model::mean_vari::_::_serde::de::Visitor`).  Normalise to `serde::`.
        text = re.sub(r"\b(?:\w+::)+_::_serde::", "serde::", text)
        doc = json.loads(text)
        if not os.environ.get("JBV_NO_CANON") and doc.get("crate") == "jbonsai":
            mr = module_renames(doc)
            if mr:
                for nm, lm in mr:
                    text = re.sub(r"(?<![\w:])" + re.escape(nm) + r"(?=::|\")", lambda _m, lm=lm: lm, text)
                doc = json.loads(text)
            ar = adt_renames(doc)
            if ar:
                for nm, lm in ar:
                    text = re.sub(r"(?<![\w:])" + re.escape(nm) + r"(?![\w])", lambda _m, lm=lm: lm, text)
                doc = json.loads(text)
            tr = trait_renames(doc)
            if tr:
                for nm, lm in tr:
                    text = re.sub(r"(?<![\w:])" + re.escape(nm) + r"(?![\w])", lambda _m, lm=lm: lm, text)
                doc = json.loads(text)
            doc["module_renames"] = mr
            doc["adt_renames"] = ar
            doc["trait_renames"] = tr
            doc["flattened"] = flatten_new_nested_structs(doc)
        mode = os.environ.get("JBV_ANON")
        if mode:
            anonymise(doc, mode)
        if not os.environ.get("JBV_NO_CANON"):
            prune_trivial_switches(doc)
            if doc.get("crate") == "jbonsai":
                canonicalise_fn_renames(doc)
            canonicalise_params(doc)
            if doc.get("crate") == "jbonsai":
                doc["param_order"] = canonicalise_param_order(doc)
            canonicalise_fields(doc)
        inl = []
        if not os.environ.get("JBV_NO_INLINE") and doc.get("crate") == "jbonsai":
            from .inline import inline_new_helpers, desugar_effect_combinators
            des = [] if os.environ.get("JBV_NO_DESUGAR") else desugar_effect_combinators(doc)
            inl = inline_new_helpers(doc)
            doc["desugared"] = des
            if doc.get("_flatten_groups"):
                # places composed by the inliner (`(*r).f` with r = &x.g) are flattened as well
                flatten_new_nested_structs(doc)
        prog = cls(doc)
        prog.inlined = inl
        return prog

    def body(self, path):
        return self.bodies.get(path)

    def find(self, suffix):
        """bodies whose path ends with `suffix` (used for role-based anchors)"""
        return [b for p, b in self.bodies.items() if p == suffix or p.endswith("::" + suffix)]

    def closures_of(self, path):
        """closure bodies lexically nested in `path` (any depth)"""
        if self._children is None:
            ch = defaultdict(list)
            for p, b in self.bodies.items():
                if b.kind == "Closure" and b.parent:
                    ch[b.parent].append(b)
            self._children = ch
        return self._children.get(path, [])

    def nested(self, path):
        """bodies whose def path starts with path + '::' (closures and nested fns)"""
        pre = path + "::"
        out = [b for p, b in self.bodies.items() if p.startswith(pre)]
        # closures of helpers that were inlined into `path` live in it now (re-parented by
        # jbv/inline.py although their def path still names the helper)
        seen = {id(b) for b in out}
        for p, b in self.bodies.items():
            if id(b) in seen or b.kind != "Closure":
                continue
            q, n = b, 0
            while q is not None and q.kind == "Closure" and n < 6:
                par = getattr(q, "direct_parent", None) or q.parent
                if par == path:
                    out.append(b)
                    seen.add(id(b))
                    break
                q = self.bodies.get(par)
                n += 1
        return out
