"""Loop-variable symbolisation for recurrence rules.

An expression tree built by ExprBuilder renders the induction variable of `for x in a..b` as
`(Range::next(Range{start: a, end: b}) as Some).0` (and `(a..b).rev()` through `Rev::next`).
`LoopSyms` maps every such subtree to an atom ('lv', n) and remembers, per atom, the direction and
the start / end bounds as D-poly forms (an `Ord::min(x, y)` end is kept as the set of its
alternatives), so that a rule can state a recurrence as index polynomials over named loop
variables:   A[t][i] -= A[t-j][j] * A[t-j][i+j] * A[t-j][0]   with j in 1..min(width-i, t+1).
"""
import re

from .expr import to_poly, Poly, canon, show

RANGE_NEXT = re.compile(r"^std::iter::range::<impl std::iter::Iterator for std::ops::Range<A>>::next$")
RANGE_INCL_NEXT = re.compile(r"^std::iter::range::<impl std::iter::Iterator for std::ops::RangeInclusive<A>>::next$")
REV_NEXT = re.compile(r"^<std::iter::Rev<I> as std::iter::Iterator>::next$")
MIN_FNS = ("std::cmp::Ord::min", "core::cmp::Ord::min", "std::cmp::min", "core::cmp::min", "usize::min")


def _range_of(e):
    if e[0] == "agg" and e[1] == "std::ops::Range::Range" and e[3] == ("start", "end"):
        return e[2][0], e[2][1]
    return None


def loop_var_parts(e):
    """(dir, start_expr, end_expr) if `e` is the induction variable of a range loop"""
    if not (e[0] == "field" and e[2] == "0" and e[1][0] == "variant" and e[1][2] == "Some"):
        return None
    c = e[1][1]
    if c[0] != "call" or len(c[2]) != 1:
        return None
    if RANGE_NEXT.match(c[1]):
        r = _range_of(c[2][0])
        return ("up",) + r if r else None
    if RANGE_INCL_NEXT.match(c[1]):
        a = c[2][0]
        if a[0] == "call" and a[1].endswith("RangeInclusive::<Idx>::new") and len(a[2]) == 2:
            # a..=b  ==  a..b+1
            return ("up", a[2][0], ("bin", "Add", a[2][1], ("c", 1, "i", None)))
        return None
    if REV_NEXT.match(c[1]):
        inner = c[2][0]
        if inner[0] == "call" and inner[1].endswith("Iterator::rev") and len(inner[2]) == 1:
            r = _range_of(inner[2][0])
            return ("down",) + r if r else None
    return None


class LoopSyms:
    def __init__(self, atomize=None):
        self.user_atomize = atomize
        self.table = {}   # key -> n
        self.info = {}    # n -> dict(dir, start Poly, end frozenset[Poly])

    def atomize(self, e):
        if self.user_atomize is not None:
            a = self.user_atomize(e)
            if a is not None:
                return a
        lv = loop_var_parts(e)
        if lv is not None:
            d, s, en = lv
            sp = self.poly(s)
            ends = frozenset(self.min_alts(en))
            key = (d, sp, ends)
            if key not in self.table:
                n = len(self.table)
                self.table[key] = n
                self.info[n] = {"dir": d, "start": sp, "end": ends, "src": show(e)[:160]}
            return ("lv", self.table[key])
        return None

    def min_alts(self, e):
        if e[0] == "call" and e[1] in MIN_FNS and len(e[2]) == 2:
            return self.min_alts(e[2][0]) + self.min_alts(e[2][1])
        return [self.poly(e)]

    def poly(self, e):
        return to_poly(e, self.atomize)

    def lv(self, n):
        return Poly.atom(("lv", n))

    def find(self, dir=None, start=None, end=None):
        """loop variables matching the given direction / start poly / end alternatives"""
        out = []
        for n, i in self.info.items():
            if dir is not None and i["dir"] != dir:
                continue
            if start is not None and i["start"] != start:
                continue
            if end is not None and i["end"] != frozenset(end):
                continue
            out.append(n)
        return out

    def describe(self, n):
        i = self.info[n]
        return "%s %s..%s" % (i["dir"], i["start"], " min ".join(sorted(str(x) for x in i["end"])))


def factors(e):
    """flatten a product tree into its factor list"""
    if e[0] == "bin" and e[1] in ("Mul", "MulUnchecked"):
        return factors(e[2]) + factors(e[3])
    return [e]


def band_entry(e, is_matrix, syms):
    """(row poly, col poly) if `e` is matrix[row][col]"""
    if e[0] == "idx" and e[1][0] == "idx" and is_matrix(e[1][1]):
        return syms.poly(e[1][2]), syms.poly(e[2])
    return None


def vec_entry(e, is_vec, syms):
    if e[0] == "idx" and is_vec(e[1]):
        return syms.poly(e[2])
    return None


def rewrite(e, f):
    """bottom-up rewriting of an expression tree: f(node) -> node | None (None keeps it)"""
    t = e[0]
    if t in ("field", "variant", "len", "discr", "repeat", "proj", "overflow"):
        e = (t, rewrite(e[1], f)) + tuple(e[2:])
    elif t == "idx":
        e = ("idx", rewrite(e[1], f), rewrite(e[2], f))
    elif t == "bin":
        e = ("bin", e[1], rewrite(e[2], f), rewrite(e[3], f)) + tuple(e[4:])
    elif t in ("un", "cast"):
        e = (t, e[1], rewrite(e[2], f)) + tuple(e[3:])
    elif t == "call":
        e = ("call", e[1], tuple(rewrite(a, f) for a in e[2])) + tuple(e[3:])
    elif t == "agg":
        e = ("agg", e[1], tuple(rewrite(a, f) for a in e[2])) + tuple(e[3:])
    elif t == "subslice":
        e = ("subslice", rewrite(e[1], f)) + tuple(e[2:])
    r = f(e)
    return e if r is None else r


SPLIT_AT = re.compile(r"^(core|std)::slice::<impl \[T\]>::split_at(_mut)?$")


def resolve_splits(e):
    """`x.split_at_mut(n).0[i]` is `x[i]` and `.1[i]` is `x[n + i]` (the two halves alias the
    original storage): lets a recurrence be recognised after a borrow-splitting refactor"""
    def f(n):
        # (S.first() / first_mut() as Some).0 is S[0]
        if n[0] == "field" and n[2] == "0" and n[1][0] == "variant" and n[1][2] == "Some" and n[1][1][0] == "call" \
                and n[1][1][1].rsplit("::", 1)[-1] in ("first", "first_mut") and "<impl [T]>" in n[1][1][1] and len(n[1][1][2]) == 1:
            m = ("idx", n[1][1][2][0], ("c", 0, "i", None))
            return f(m) or m
        if n[0] == "idx" and n[1][0] == "field" and n[1][2] in ("0", "1"):
            c = n[1][1]
            if c[0] == "call" and SPLIT_AT.match(c[1]) and len(c[2]) == 2:
                if n[1][2] == "0":
                    return ("idx", c[2][0], n[2])
                if n[2][0] == "c" and n[2][1] == 0:
                    return ("idx", c[2][0], c[2][1])
                return ("idx", c[2][0], ("bin", "Add", c[2][1], n[2]))
        return None
    return rewrite(e, f)


# --------------------------------------------------------------------------------------
# `for (k, x) in xs.iter().enumerate().take(t).skip(s)`  ==  `for k in s..min(t, len(xs))` with x = xs[k]


def _enum_chain(it):
    """(X, start expr, [end exprs]) for next-receiver `it` = enumerate(iter(X)) wrapped in take / skip"""
    one = ("c", 1, "i", None)
    zero = ("c", 0, "i", None)
    if it[0] == "call" and it[1].endswith("Iterator::enumerate") and len(it[2]) == 1:
        x = it[2][0]
        while x[0] == "call" and (x[1].endswith("::iter") or x[1].endswith("into_iter")) and len(x[2]) == 1:
            x = x[2][0]
        return x, zero, [("len", x)]
    if it[0] == "call" and it[1].endswith("Iterator::take") and len(it[2]) == 2:
        r = _enum_chain(it[2][0])
        if r is None:
            return None
        x, s, ends = r
        # take(t) after a start s keeps indices s .. s + t
        t = it[2][1] if s == zero else ("bin", "Add", s, it[2][1])
        return x, s, ends + [t]
    if it[0] == "call" and it[1].endswith("Iterator::skip") and len(it[2]) == 2:
        r = _enum_chain(it[2][0])
        if r is None:
            return None
        x, s, ends = r
        s2 = it[2][1] if s == zero else ("bin", "Add", s, it[2][1])
        return x, s2, ends
    return None


def enumerate_as_range(e):
    """rewrite the index / element of an enumerate().take().skip() loop into a range loop variable
    and an indexed element, so that recurrence rules see `k` and `xs[k]`"""
    def f(n):
        # (next(CH) as Some).0.0 -> k ; (next(CH) as Some).0.1 -> X[k]
        if n[0] == "field" and n[2] in ("0", "1") and n[1][0] == "field" and n[1][2] == "0" and n[1][1][0] == "variant" and n[1][1][2] == "Some":
            c = n[1][1][1]
            if c[0] == "call" and c[1].endswith("::next") and len(c[2]) == 1:
                r = _enum_chain(c[2][0])
                if r is not None:
                    x, s, ends = r
                    end = ends[0]
                    for e2 in ends[1:]:
                        end = ("call", "std::cmp::Ord::min", (end, e2))
                    k = ("field", ("variant", ("call", "std::iter::range::<impl std::iter::Iterator for std::ops::Range<A>>::next",
                                               (("agg", "std::ops::Range::Range", (s, end), ("start", "end")),)), "Some"), "0")
                    return k if n[2] == "0" else ("idx", x, k)
        return None
    return rewrite(e, f)


def prefix_slices(e):
    """`x[..n][k]` is `x[k]` and `len(x[..n])` is `n` (when the slice exists at all - taking it is a
    panic site of its own, judged by the ledgers): lets an element rule see through a prefix taken
    before a loop"""
    def pre(x):
        if x[0] == "call" and x[1].endswith("::index") and len(x[2]) == 2 and x[2][1][0] == "agg" and x[2][1][1].endswith("RangeTo::RangeTo") and x[2][1][2]:
            return x[2][0], x[2][1][2][0]
        if x[0] == "idx" and x[2][0] == "agg" and x[2][1].endswith("RangeTo::RangeTo") and x[2][2]:
            return x[1], x[2][2][0]
        return None

    def f(n):
        if n[0] == "len":
            r = pre(n[1])
            if r:
                return r[1]
        if n[0] == "idx" and n[2][0] != "agg":
            r = pre(n[1])
            if r:
                return ("idx", r[0], n[2])
        return None
    return rewrite(e, f)


def for_each_bodies(p, b, eb):
    """closures run by `(lo..hi).for_each(|i| ..)` in body b, each with a function that rewrites the
    closure's expressions into the terms of b: captured variables resolved to their values and the
    closure parameter replaced by the variable of the equivalent `for i in lo..hi` loop.
    Yields (closure body, its ExprBuilder, rewrite, for_each call block)."""
    from .expr import resolve_upvars, ExprBuilder
    from .mir import callee_name
    for bb, t in b.calls():
        c = t["callee"]
        if c["k"] != "fndef" or not callee_name(c).endswith("Iterator::for_each") or len(t["args"]) != 2:
            continue
        recv = eb.at(bb).op(t["args"][0])
        clo = eb.op(t["args"][1])
        if not (clo[0] == "agg" and clo[1].startswith("closure:")):
            continue
        cb = p.bodies.get(clo[1][len("closure:"):])
        r = _range_of(recv)
        if cb is None or r is None or cb.argc != 2:
            continue
        lv = ("field", ("variant", ("call", "std::iter::range::<impl std::iter::Iterator for std::ops::Range<A>>::next",
                                    (("agg", "std::ops::Range::Range", (r[0], r[1]), ("start", "end")),)), "Some"), "0")

        def rw(e, cb=cb, lv=lv):
            e = resolve_upvars(p, cb, e)
            return rewrite(e, lambda n: lv if (n[0] == "arg" and n[1] == 2) else None)
        yield cb, ExprBuilder(cb), rw, bb

