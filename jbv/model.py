"""Model table of external (std/core/alloc/third-party) callees, keyed on the resolved path.

Classes:
  pure      value-only or allocating; deterministic; touches nothing but its arguments
  stderr    diagnostic output on stderr (eprintln!) -- tolerated effect
  diverge   panics / aborts (effect-free for purity; judged by the E6 ledger instead)
  nondet    time, environment, file system, network, process, thread identity, random state,
            HashMap/HashSet iteration order, pointer->integer
  interior  Cell/RefCell/Mutex/RwLock/Atomic*/Once*/Lazy* operations, thread-locals
  io        reads the outside world (allowed only in the loader)
A callee matching no entry is `unmodelled` and is reported, never silently accepted.
One line per family with the reason.
"""
import re

_T = [
    # ---- forbidden classes first (so that a broad pure prefix cannot shadow them)
    ("nondet", r"std::time::|core::time::.*now", "wall clock / monotonic clock"),
    ("nondet", r"std::env::", "process environment"),
    ("nondet", r"std::process::|std::os::", "process state"),
    ("nondet", r"std::thread::(current|ThreadId|park|sleep|spawn|available_parallelism)", "thread identity / scheduling"),
    ("nondet", r"std::net::", "network"),
    ("nondet", r"(std|core)::hash::(RandomState|BuildHasher)|std::collections::hash_map::RandomState|std::hash::random", "per-process random hash seed"),
    ("nondet", r"std::collections::hash_(map|set)::(Iter|IterMut|IntoIter|Keys|Values|ValuesMut|IntoKeys|IntoValues|Drain)|<std::collections::hash_(map|set)::\w+<.*> as (std|core)::iter::Iterator>", "HashMap/HashSet iteration order depends on the random seed"),
    ("nondet", r"std::collections::Hash(Map|Set)::<.*>::(iter|iter_mut|keys|values|values_mut|into_keys|into_values|drain|retain|extract_if)$", "HashMap/HashSet iteration order"),
    ("nondet", r"<&?('\w+ )?(mut )?std::collections::Hash(Map|Set)<.*> as (std|core)::iter::IntoIterator>::into_iter", "HashMap/HashSet iteration order"),
    ("nondet", r"(std|core)::ptr::.*(addr|expose_provenance)|(std|core)::ptr::(const|mut)_ptr::.*::addr", "pointer -> integer"),
    ("nondet", r"rand::|getrandom::|fastrand::", "random number crates"),
    ("interior", r"(std|core)::cell::", "Cell/RefCell/UnsafeCell/OnceCell"),
    ("interior", r"(std|core)::sync::atomic::", "atomics"),
    ("interior", r"std::sync::(Mutex|RwLock|Once|OnceLock|LazyLock|Condvar|Barrier|mpsc|poison)", "locks / once / channels"),
    ("interior", r"std::thread::(LocalKey|local)", "thread-local storage"),
    ("io", r"std::fs::|std::io::(Read|Write|BufRead|stdin|stdout|Stdin|Stdout|BufReader|copy)|std::path::", "file system / streams"),
    # ---- tolerated effect
    ("stderr", r"std::io::_eprint$|std::io::stdio::_eprint$", "eprintln!: stderr diagnostic"),
    ("pure", r"(std|core)::fmt::", "formatting machinery (pure; feeds eprintln!/format!/Display)"),
    ("pure", r"<.* as (std|core)::fmt::(Display|Debug|Write)>::", "formatting impls"),
    ("pure", r"(std|alloc)::fmt::format", "format!"),
    # ---- diverging
    ("diverge", r"core::panicking::|std::rt::(begin_panic|panic_fmt)|std::panicking::|core::option::(unwrap_failed|expect_failed)|core::result::unwrap_failed|core::slice::index::slice_.*_fail|core::str::slice_error_fail", "panic entry points"),
    ("diverge", r"(std|core)::process::abort|(std|core)::intrinsics::abort", "abort"),
    # ---- pure families
    ("pure", r"(std|core)::f(32|64)::<impl f(32|64)>::", "float math"),
    ("pure", r"core::num::(<impl \w+>::|.*::<impl .* for \w+>::)", "integer math"),
    ("pure", r"<&?('\w+ )?(mut )?\w+ as (std|core)::ops::(Add|Sub|Mul|Div|Rem|Neg|Not|BitAnd|BitOr|BitXor|Shl|Shr)(Assign)?(<.*>)?>::", "operator impls on primitives"),
    ("pure", r"(std|core)::ops::(Add|Sub|Mul|Div|Rem|Neg|Not)(Assign)?::", "operator traits (generic receiver)"),
    ("pure", r"(std|core)::ops::(Deref|DerefMut|Index|IndexMut|Fn|FnMut|FnOnce|Try|FromResidual|Range\w*|Bound|ControlFlow|RangeBounds)(::|<)", "ops traits on generic receivers"),
    ("pure", r"<.* as (std|core)::ops::(Deref|DerefMut|Index|IndexMut|Fn|FnMut|FnOnce|Try|FromResidual|RangeBounds)(<.*>)?>::", "ops trait impls (Vec/Arc/Cow/Option/Result/slices)"),
    ("pure", r"(std|core)::iter::|<.* as (std|core)::iter::(Iterator|IntoIterator|DoubleEndedIterator|ExactSizeIterator|FromIterator|Extend|Sum|Product)(<.*>)?>::", "iterator adaptors and impls (non-hash)"),
    ("pure", r"core::slice::|std::slice::|core::array::|std::array::", "slice/array methods"),
    ("pure", r"(std|alloc)::vec::|<std::vec::\w+<.*> as ", "Vec methods"),
    ("pure", r"core::str::|std::str::|(std|alloc)::string::|<T as std::string::ToString>::|<std::string::String as |<str as ", "str/String methods"),
    ("pure", r"(std|core)::option::Option::<&(mut )?T>::(copied|cloned)$|std::prelude::v1::(Some|None|Ok|Err)$|(std|core)::(option::Option|result::Result)::(Some|None|Ok|Err)$", "Option<&T>::copied/cloned; enum constructors used as functions"),
    ("pure", r"std::boxed::box_assume_init_into_vec_unsafe$|std::boxed::Box::<T(, A)?>::new_uninit", "internals of std's vec![] macro expansion (array literal moved into a Vec)"),
    ("pure", r"(std|core)::option::Option::<T>::|(std|core)::result::Result::<T, E>::|<std::option::Option<T> as |<std::result::Result<T, \w+> as ", "Option/Result combinators"),
    ("pure", r"(std|core)::option::Option::<.*>::(transpose|flatten|unzip|copied|cloned)$|(std|core)::result::Result::<.*>::(transpose|flatten|copied|cloned)$", "Option/Result combinators on nested types"),
    ("pure", r"core::bool::<impl bool>::(then|then_some)$", "bool::then / then_some: calls the closure or wraps the value"),
    ("pure", r"(std|core)::clone::|<.* as (std|core)::clone::Clone>::", "Clone"),
    ("pure", r"(std|core)::cmp::|<.* as (std|core)::cmp::(PartialEq|PartialOrd|Ord|Eq)(<.*>)?>::", "comparisons"),
    ("pure", r"(std|core)::convert::|<.* as (std|core)::convert::(From|Into|TryFrom|TryInto|AsRef|AsMut)(<.*>)?>::", "conversions"),
    ("pure", r"(std|core)::default::Default::default|<.* as (std|core)::default::Default>::", "Default"),
    ("pure", r"(std|core)::borrow::|<std::borrow::Cow<.*> as ", "Cow/Borrow"),
    ("pure", r"std::sync::Arc::<T(, A)?>::(new|clone|as_ref)|<std::sync::Arc<T(, A)?> as (std::ops::Deref|std::clone::Clone|std::convert::AsRef<T>)>::", "Arc: shared immutable ownership (refcount not observable by synthesis)"),
    ("pure", r"(std|core)::mem::(take|swap|replace|size_of|drop|forget)", "mem helpers"),
    ("pure", r"(std|alloc)::boxed::Box::<T(, A)?>::new|<std::boxed::Box<.*> as ", "Box"),
    ("pure", r"std::collections::(BTreeMap|BTreeSet|VecDeque|btree_map|btree_set)", "ordered collections (deterministic iteration)"),
    ("pure", r"std::collections::Hash(Map|Set)::<.*>::(new|with_capacity|insert|get|get_mut|contains_key|contains|entry|len|is_empty|remove)$|std::collections::hash_map::(Entry|OccupiedEntry|VacantEntry)::|<std::collections::HashMap<.*> as (std|core)::iter::(FromIterator|Extend)<.*>>::|<std::collections::HashMap<K, V, S> as std::ops::Index", "HashMap point operations (order-independent)"),
    ("pure", r"(std|core)::marker::|(std|core)::hint::|(std|core)::any::type_name", "markers"),
    ("pure", r"(std|core)::char::|core::unicode::|<char as ", "char methods"),
    ("pure", r"(std|core)::error::|<.* as (std|core)::error::Error>::", "Error trait plumbing"),
    ("pure", r"(std|core)::num::(ParseIntError|ParseFloatError|IntErrorKind)|core::num::dec2flt|<f64 as core::str::FromStr>|<\w+ as (std|core)::str::FromStr>::from_str", "number parsing"),
    ("pure", r"(std|core)::hash::Hash::hash|<.* as (std|core)::hash::Hash>::", "hashing a value (no seed access)"),
    ("pure", r"byteorder::", "byte-order conversions"),
    ("pure", r"approx::|<f64 as approx::", "approx comparison helpers"),
    # ---- third-party models (read, see DESIGN.md §4 trusted base)
    ("pure", r"<jlabel_question::(AllQuestion|regex::RegexQuestion) as jlabel_question::QuestionMatcher>::(test|parse)|jlabel_question::", "jlabel-question: pattern match of a label; regex scratch cache is internally synchronised and does not influence results (audited exception C03-R2)"),
    ("pure", r"jlabel::|<jlabel::Label as ", "jlabel: label text <-> struct"),
    ("pure", r"nom::|<.* as nom::", "nom parser combinators (loader only)"),
    ("pure", r"serde::|<.* as serde::|serde_core::|<.* as serde_core::", "serde data model plumbing (loader only)"),
    ("pure", r"thiserror::", "error derive helpers"),
]
TABLE = [(cls, re.compile(rx), why) for cls, rx, why in _T]


def classify(name):
    """-> (class, reason) ; class None = unmodelled"""
    n = name
    for pre in ("<local-ctor>", "<fnref>"):
        if n.startswith(pre):
            n = n[len(pre):]
            if pre == "<local-ctor>":
                return "pure", "local tuple-struct/variant constructor"
    for cls, rx, why in TABLE:
        if rx.search(n):
            return cls, why
    return None, None
