// Demonstration for the C09 defect: with alignment enabled, trailing labels without an end time
// must fall back to their model durations instead of vanishing.
use jbonsai::Engine;
const MODEL: &str = "models/hts_voice_nitech_jp_atr503_m001-1.05/nitech_jp_atr503_m001.htsvoice";
const L0: &str = "xx^xx-sil+b=o/A:xx+xx+xx/B:xx-xx_xx/C:xx_xx+xx/D:xx+xx_xx/E:xx_xx!xx_xx-xx/F:xx_xx#xx_xx@xx_xx|xx_xx/G:4_4%0_xx_xx/H:xx_xx/I:xx-xx@xx+xx&xx-xx|xx+xx/J:1_4/K:1+1-4";
const L1: &str = "xx^sil-b+o=N/A:-3+1+4/B:xx-xx_xx/C:02_xx+xx/D:xx+xx_xx/E:xx_xx!xx_xx-xx/F:4_4#0_xx@1_1|1_4/G:xx_xx%xx_xx_xx/H:xx_xx/I:1-4@1+1&1-1|1+4/J:xx_xx/K:1+1-4";
const L2: &str = "a^i-sil+xx=xx/A:xx+xx+xx/B:xx-xx_xx/C:xx_xx+xx/D:xx+xx_xx/E:4_4!0_xx-xx/F:xx_xx#xx_xx@xx_xx|xx_xx/G:xx_xx%xx_xx_xx/H:1_4/I:xx-xx@xx+xx&xx-xx|xx+xx/J:xx_xx/K:1+1-4";
#[test]
fn untimed_labels_fall_back_to_model_durations() {
    let mut engine = Engine::load(&[MODEL]).unwrap();
    let plain = engine.synthesize(&[L0, L1, L2]).unwrap();
    engine.condition.set_phoneme_alignment_flag(true);
    // no time stamps at all: every state falls back to its model duration
    let aligned = engine.synthesize(&[L0, L1, L2]).unwrap();
    assert_eq!(aligned.len(), plain.len());
    assert_eq!(aligned, plain);
    // first label timed (0 .. 0.5 s = 100 frames of 240 samples at 48 kHz), the rest untimed
    let timed = [format!("0 5000000 {L0}"), L1.to_string(), L2.to_string()];
    let partly = engine.synthesize(&timed).unwrap();
    let fp = engine.condition.get_fperiod();
    assert!(partly.len() > 100 * fp, "trailing untimed labels vanished: {} samples", partly.len());
}
