// Demonstration for the C13 defect repaired by the /repo commit "fix: lsp2lpc builds A(z) from the line
// spectral frequencies only".  Place under <repo>/tests/ and run `cargo test --offline --test
// c13_lsp_pulse_response`: on the original tree the response deviates from 1/A(z)^s by ~1e9 (the filter
// diverges); on the repaired tree it agrees to 1e-9 for orders 1..7 (even and odd) and stages 1..3.
use jbonsai::vocoder::Vocoder;

/// A(z) = 1 + a1 z^-1 + .. + am z^-m from line spectral frequencies (order m), by polynomial multiplication
fn lsp_to_a(w: &[f64]) -> Vec<f64> {
    let m = w.len();
    fn mul(p: &[f64], q: &[f64]) -> Vec<f64> {
        let mut r = vec![0.0; p.len() + q.len() - 1];
        for (i, a) in p.iter().enumerate() {
            for (j, b) in q.iter().enumerate() {
                r[i + j] += a * b;
            }
        }
        r
    }
    // P: odd-numbered frequencies w1, w3, .. ; Q: even-numbered w2, w4, ..
    let mut p = vec![1.0];
    let mut q = vec![1.0];
    for (i, wi) in w.iter().enumerate() {
        let f = [1.0, -2.0 * wi.cos(), 1.0];
        if i % 2 == 0 { p = mul(&p, &f) } else { q = mul(&q, &f) }
    }
    if m % 2 == 0 {
        p = mul(&p, &[1.0, 1.0]);
        q = mul(&q, &[1.0, -1.0]);
    } else {
        q = mul(&q, &[1.0, 0.0, -1.0]);
    }
    (0..=m).map(|k| 0.5 * (p[k] + q[k])).collect()
}

fn vocoder_pulse_response(k: f64, w: &[f64], stage: usize) -> Vec<f64> {
    let rate = 16000usize;
    let fperiod = 80usize;
    let mut spectrum = vec![k];
    spectrum.extend_from_slice(w);
    let mut v = Vocoder::new(spectrum.len(), 0, stage, false, rate, 0.0, 0.0, 1.0, fperiod);
    let t0 = 1600.0; // one pulse every 1600 samples
    let lf0 = (rate as f64 / t0).ln();
    let mut out = vec![];
    for _ in 0..60 {
        let mut buf = vec![0.0; fperiod];
        v.synthesize(lf0, &spectrum, &[], &mut buf);
        out.extend(buf);
    }
    out
}

#[test]
fn lsp_stage1_matches_all_pole_filter() {
    for w in [vec![0.6, 1.4], vec![0.5, 1.0, 1.7, 2.4], vec![0.3, 0.7, 1.2, 1.9, 2.5, 2.9], vec![1.0], vec![0.4, 0.9, 1.6], vec![0.5, 1.2, 2.0], vec![0.3, 1.5, 2.8], vec![0.2,0.6,1.0,1.4,1.8,2.2,2.6], vec![0.3, 0.8, 1.3, 1.9, 2.6]] {
      for stage in [1usize, 2, 3] {
        let k = 0.8;
        let out = vocoder_pulse_response(k, &w, stage);
        assert!(out.iter().all(|x| x.is_finite()), "non-finite output for {w:?}");
        // locate the second pulse (settled coefficients) and compare 200 samples of response
        let a = lsp_to_a(&w);
        // the first excitation pulse is emitted at sample 0 and the coefficients are stationary
        let peak = 0;
        let x0 = out[peak];
        assert!(x0 != 0.0);
        let mut y = vec![0.0; 200];
        y[0] = x0;
        for _ in 0..stage {
            let x = y.clone();
            for n in 0..200 {
                let mut acc = x[n];
                for (kk, ak) in a.iter().enumerate().skip(1) {
                    if n >= kk { acc -= ak * y[n - kk]; }
                }
                y[n] = acc;
            }
        }
        let mut worst: f64 = 0.0;
        for n in 0..200 {
            worst = worst.max((out[peak + n] - y[n]).abs() / x0.abs());
        }
        assert!(worst < 1e-9, "stage {stage} order {}: response deviates from 1/A(z) by {worst} (relative to the pulse)", w.len());
      }
    }
}
