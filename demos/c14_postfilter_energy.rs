// Demonstration for the C14 defect repaired by the /repo commit "fix: freqt consumes the input
// cepstrum from the highest order down".  Place under <repo>/tests/ and run
// `cargo test --offline --test c14_postfilter_energy`.
//
// C14: enabling the postfilter keeps the energy of the filter's impulse response (within 1%).
// The compensation of order 0 uses b2en = energy(c2ir(freqt(b2mc(b), -alpha))); the original
// freqt fed the recursion with c[0], c[1], ... instead of c[m], c[m-1], ..., i.e. it measured the
// energy of the *reversed* cepstrum, so the order-0 shift was wrong and the response energy with
// beta > 0 deviated by up to tens of percent.
//
// The measurement only uses the public Vocoder: a constant mel-cepstrum, a pitch period of 2000
// samples, and the energy of the settled response to one excitation pulse.
use jbonsai::vocoder::Vocoder;

fn pulse_response_energy(c: &[f64], alpha: f64, beta: f64) -> f64 {
    let rate = 48000usize;
    let fperiod = 240usize;
    let mut v = Vocoder::new(c.len(), 0, 0, false, rate, alpha, beta, 1.0, fperiod);
    let lf0 = (rate as f64 / 2000.0).ln();
    let mut out = vec![];
    for _ in 0..50 {
        let mut buf = vec![0.0; fperiod];
        v.synthesize(lf0, c, &[], &mut buf);
        out.extend(buf);
    }
    // pulses every 2000 samples; take one full settled period that starts just before a pulse
    let peak = (5000..7500).max_by(|&a, &b| out[a].abs().partial_cmp(&out[b].abs()).unwrap()).unwrap();
    let start = peak - 200;
    out[start..start + 2000].iter().map(|x| x * x).sum()
}

#[test]
fn postfilter_keeps_impulse_response_energy() {
    let cepstra: [&[f64]; 3] = [
        &[0.3, 0.9, 0.365, -0.215],
        &[0.1, 0.6, -0.4, 0.3, -0.2, 0.1],
        &[0.0, 1.1, 0.5, 0.25, 0.12, 0.06, 0.03, 0.015],
    ];
    let mut worst: f64 = 0.0;
    for c in cepstra {
        for alpha in [0.0, 0.3, 0.42, 0.55] {
            let e0 = pulse_response_energy(c, alpha, 0.0);
            for beta in [0.1, 0.3, 0.5] {
                let e = pulse_response_energy(c, alpha, beta);
                let r = e / e0;
                worst = worst.max((r - 1.0).abs());
                assert!((r - 1.0).abs() <= 0.01, "energy ratio {r} for order {} alpha {alpha} beta {beta}", c.len() - 1);
            }
        }
    }
    eprintln!("worst deviation {worst}");
}
