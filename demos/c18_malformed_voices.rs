// Demonstration for the C18 defects: each malformed voice below is derived from the bundled
// voice by editing its text header / tree text; loading must return Err (or Ok), never panic,
// and must not try to allocate by a number taken from the header.
use std::panic::catch_unwind;

const MODEL: &str = "models/hts_voice_nitech_jp_atr503_m001-1.05/nitech_jp_atr503_m001.htsvoice";

fn split() -> (String, Vec<u8>) {
    let bytes = std::fs::read(MODEL).unwrap();
    let marker = b"[DATA]\n";
    let pos = bytes.windows(marker.len()).position(|w| w == marker).unwrap() + marker.len();
    (String::from_utf8(bytes[..pos].to_vec()).unwrap(), bytes[pos..].to_vec())
}

fn load(name: &str, header: String, data: Vec<u8>) -> Result<bool, String> {
    let mut v = header.into_bytes();
    v.extend_from_slice(&data);
    let path = std::env::temp_dir().join(format!("jbonsai-c18-{}-{}.htsvoice", std::process::id(), name));
    std::fs::write(&path, v).unwrap();
    let p2 = path.clone();
    let r = catch_unwind(move || jbonsai::Engine::load(&[&p2]).is_ok());
    std::fs::remove_file(&path).ok();
    r.map_err(|e| {
        e.downcast_ref::<String>().cloned().or_else(|| e.downcast_ref::<&str>().map(|s| s.to_string())).unwrap_or_default()
    })
}

fn check(name: &str, header: String, data: Vec<u8>) {
    match load(name, header, data) {
        Ok(_) => {}
        Err(msg) => panic!("loading malformed voice `{name}` panicked: {msg}"),
    }
}

#[test]
fn a_section_range_beyond_data() {
    let (h, d) = split();
    check("range-beyond", h.replace("DURATION_PDF:0-9803", "DURATION_PDF:0-4000000000"), d.clone());
    check("range-inverted", h.replace("DURATION_PDF:0-9803", "DURATION_PDF:9803-0"), d.clone());
    check("range-max", h.replace("DURATION_PDF:0-9803", "DURATION_PDF:0-18446744073709551615"), d.clone());
    check("truncated", h.clone(), d[..d.len() / 2].to_vec());
}

#[test]
fn b_window_range_beyond_data() {
    let (h, d) = split();
    check("win-beyond", h.replace("STREAM_WIN[LPF]:40952-40957", "STREAM_WIN[LPF]:40952-9999999999"), d.clone());
    check("win-inverted", h.replace("STREAM_WIN[LPF]:40952-40957", "STREAM_WIN[LPF]:40957-40952"), d.clone());
    check("win-max", h.replace("STREAM_WIN[LPF]:40952-40957", "STREAM_WIN[LPF]:40952-18446744073709551615"), d);
}

fn with_gv_tree(tree_text: &str) -> (String, Vec<u8>) {
    // replace the LF0 GV tree section (the last section of the data) by `tree_text`
    let (h, d) = split();
    let start = 1167968usize;
    let mut data = d[..start].to_vec();
    data.extend_from_slice(tree_text.as_bytes());
    let end = start + tree_text.len() - 1;
    (h.replace("GV_TREE[LF0]:1167968-1168282", &format!("GV_TREE[LF0]:{start}-{end}")), data)
}

#[test]
fn c_tree_references() {
    let (h, d) = with_gv_tree("{*}[2] -3\n");
    check("single-node-id", h, d);
    let (h, d) = with_gv_tree("QS q1 { \"*-sil+*\" }\n\n{*}[2]\n{\n 0 q1 -7 \"gv_lf0_1\"\n}\n");
    check("unknown-node", h, d);
    let (h, d) = with_gv_tree("QS q1 { \"*-sil+*\" }\n\n{*}[2]\n{\n 0 nosuchq \"gv_lf0_1\" \"gv_lf0_2\"\n}\n");
    check("unknown-question", h, d);
}

#[test]
fn d_overlong_numbers() {
    let (h, d) = split();
    check("overlong-mul", h.replace("SAMPLING_FREQUENCY:48000", "SAMPLING_FREQUENCY:99999999999999999999999999"), d.clone());
    check("overlong-add", h.replace("NUM_STATES:5", "NUM_STATES:18446744073709551616"), d.clone());
    check("states-product", h.replace("NUM_STATES:5", "NUM_STATES:9223372036854775808"), d.clone());
    check("veclen-product", h.replace("VECTOR_LENGTH[MCP]:35", "VECTOR_LENGTH[MCP]:9223372036854775808"), d.clone());
    check("nwin-product", h.replace("NUM_WINDOWS[MCP]:3", "NUM_WINDOWS[MCP]:6148914691236517206"), d.clone());
    check("gv-veclen-product", h.replace("VECTOR_LENGTH[LF0]:1", "VECTOR_LENGTH[LF0]:9223372036854775808"), d);
}

#[test]
fn e_stream_counts() {
    let (h, d) = split();
    check("no-streams", h.replace("STREAM_TYPE:MCP,LF0,LPF", "STREAM_TYPE:").replace("NUM_STREAMS:3", "NUM_STREAMS:0"), d.clone());
    // a declared stream count that nothing backs: must not be used as an allocation size
    let r = load("huge-num-streams", h.replace("NUM_STREAMS:3", "NUM_STREAMS:4611686018427387904"), d);
    assert!(r.is_ok(), "huge NUM_STREAMS panicked: {:?}", r);
}
