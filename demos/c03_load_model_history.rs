//! C03: two conditions that went through different `load_model` histories but ended on the same
//! voice must synthesize the same waveform (the option-less fields GAMMA / LN_GAIN have no getter).
use jbonsai::engine::{Condition, Engine};
use jbonsai::model::{load_htsvoice_file, VoiceSet};
use std::sync::Arc;

const VOICE: &str = "models/hts_voice_nitech_jp_atr503_m001-1.05/nitech_jp_atr503_m001.htsvoice";
const LABELS: [&str; 3] = [
    "xx^xx-sil+b=o/A:xx+xx+xx/B:xx-xx_xx/C:xx_xx+xx/D:xx+xx_xx/E:xx_xx!xx_xx-xx/F:xx_xx#xx_xx@xx_xx|xx_xx/G:4_4%0_xx_xx/H:xx_xx/I:xx-xx@xx+xx&xx-xx|xx+xx/J:1_4/K:1+1-4",
    "xx^sil-b+o=N/A:-3+1+4/B:xx-xx_xx/C:02_xx+xx/D:xx+xx_xx/E:xx_xx!xx_xx-xx/F:4_4#0_xx@1_1|1_4/G:xx_xx%xx_xx_xx/H:xx_xx/I:1-4@1+1&1-1|1+4/J:xx_xx/K:1+1-4",
    "sil^b-o+N=s/A:-3+1+4/B:xx-xx_xx/C:02_xx+xx/D:xx+xx_xx/E:xx_xx!xx_xx-xx/F:4_4#0_xx@1_1|1_4/G:xx_xx%xx_xx_xx/H:xx_xx/I:1-4@1+1&1-1|1+4/J:xx_xx/K:1+1-4",
];

/// the bundled voice with `GAMMA=1,LN_GAIN=1` added to the spectrum stream's option line
fn lsp_flavoured_voice() -> std::path::PathBuf {
    let bytes = std::fs::read(VOICE).unwrap();
    let needle = b"OPTION[MCP]:ALPHA=0.55";
    let at = bytes.windows(needle.len()).position(|w| w == needle).expect("option line");
    let mut out = bytes[..at].to_vec();
    out.extend_from_slice(b"OPTION[MCP]:ALPHA=0.55,GAMMA=1,LN_GAIN=1");
    out.extend_from_slice(&bytes[at + needle.len()..]);
    let path = std::env::temp_dir().join(format!("c03_history_{}.htsvoice", std::process::id()));
    std::fs::write(&path, out).unwrap();
    path
}

#[test]
fn load_model_history_does_not_leak() {
    let plain = VoiceSet::new(vec![Arc::new(load_htsvoice_file(&VOICE).unwrap())]).unwrap();
    let other_path = lsp_flavoured_voice();
    let other = VoiceSet::new(vec![Arc::new(load_htsvoice_file(&other_path).unwrap())]).unwrap();
    let _ = std::fs::remove_file(&other_path);

    // history A: fresh condition, loaded once
    let mut fresh = Condition::default();
    fresh.load_model(&plain).unwrap();
    // history B: the same condition object saw another voice first
    let mut reused = Condition::default();
    reused.load_model(&other).unwrap();
    reused.load_model(&plain).unwrap();

    let a = Engine::new(plain.clone(), fresh).synthesize(&LABELS[..]).unwrap();
    let b = Engine::new(plain, reused).synthesize(&LABELS[..]).unwrap();
    assert_eq!(a.len(), b.len());
    assert!(a.iter().zip(&b).all(|(x, y)| x.to_bits() == y.to_bits()), "the waveform depends on which voice the condition saw before");
}
