// Demonstration for the C01 defects: a two-stream voice (spectrum + log-F0, no LPF stream)
// must synthesize.  The voice is the bundled one with the LPF stream removed from the header
// (the data section is untouched, all offsets stay valid).
use jbonsai::Engine;
const MODEL: &str = "models/hts_voice_nitech_jp_atr503_m001-1.05/nitech_jp_atr503_m001.htsvoice";
const LABELS: [&str; 3] = [
 "xx^xx-sil+b=o/A:xx+xx+xx/B:xx-xx_xx/C:xx_xx+xx/D:xx+xx_xx/E:xx_xx!xx_xx-xx/F:xx_xx#xx_xx@xx_xx|xx_xx/G:4_4%0_xx_xx/H:xx_xx/I:xx-xx@xx+xx&xx-xx|xx+xx/J:1_4/K:1+1-4",
 "xx^sil-b+o=N/A:-3+1+4/B:xx-xx_xx/C:02_xx+xx/D:xx+xx_xx/E:xx_xx!xx_xx-xx/F:4_4#0_xx@1_1|1_4/G:xx_xx%xx_xx_xx/H:xx_xx/I:1-4@1+1&1-1|1+4/J:xx_xx/K:1+1-4",
 "a^i-sil+xx=xx/A:xx+xx+xx/B:xx-xx_xx/C:xx_xx+xx/D:xx+xx_xx/E:4_4!0_xx-xx/F:xx_xx#xx_xx@xx_xx|xx_xx/G:xx_xx%xx_xx_xx/H:1_4/I:xx-xx@xx+xx&xx-xx|xx+xx/J:xx_xx/K:1+1-4",
];
fn two_stream_voice() -> std::path::PathBuf {
    let bytes = std::fs::read(MODEL).unwrap();
    let marker = b"[DATA]\n";
    let pos = bytes.windows(marker.len()).position(|w| w == marker).unwrap() + marker.len();
    let header = std::str::from_utf8(&bytes[..pos]).unwrap();
    let mut out = String::new();
    for line in header.lines() {
        if line.contains("[LPF]") {
            continue;
        }
        let line = line
            .replace("NUM_STREAMS:3", "NUM_STREAMS:2")
            .replace("STREAM_TYPE:MCP,LF0,LPF", "STREAM_TYPE:MCP,LF0");
        out.push_str(&line);
        out.push('\n');
    }
    let mut v = out.into_bytes();
    v.extend_from_slice(&bytes[pos..]);
    let path = std::env::temp_dir().join(format!("jbonsai-two-stream-{}.htsvoice", std::process::id()));
    std::fs::write(&path, v).unwrap();
    path
}
#[test]
fn two_stream_voice_synthesizes() {
    let path = two_stream_voice();
    let engine = Engine::load(&[&path]).unwrap();
    assert_eq!(engine.voices.global_metadata().num_streams, 2);
    let full3 = Engine::load(&[MODEL]).unwrap().synthesize(&LABELS).unwrap();
    let speech = engine.synthesize(&LABELS).unwrap();
    std::fs::remove_file(&path).ok();
    assert_eq!(speech.len(), full3.len()); // same durations, same frame count
    assert!(speech.iter().all(|x| x.is_finite()));
    assert!(speech.iter().any(|x| *x != 0.0));
}
