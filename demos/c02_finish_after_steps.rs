// Demonstration for the C02 defect repaired by /repo commit "fix: generate_all on a partially
// consumed generator returns the remaining suffix".  Place under <repo>/tests/ and run
// `cargo test --offline --test c02_finish_after_steps`: fails (panic in generate_all) on the
// original tree, passes on the repaired one.
use jbonsai::Engine;
const MODEL: &str = "models/hts_voice_nitech_jp_atr503_m001-1.05/nitech_jp_atr503_m001.htsvoice";
const LABELS: [&str; 3] = [
 "xx^xx-sil+b=o/A:xx+xx+xx/B:xx-xx_xx/C:xx_xx+xx/D:xx+xx_xx/E:xx_xx!xx_xx-xx/F:xx_xx#xx_xx@xx_xx|xx_xx/G:4_4%0_xx_xx/H:xx_xx/I:xx-xx@xx+xx&xx-xx|xx+xx/J:1_4/K:1+1-4",
 "xx^sil-b+o=N/A:-3+1+4/B:xx-xx_xx/C:02_xx+xx/D:xx+xx_xx/E:xx_xx!xx_xx-xx/F:4_4#0_xx@1_1|1_4/G:xx_xx%xx_xx_xx/H:xx_xx/I:1-4@1+1&1-1|1+4/J:xx_xx/K:1+1-4",
 "a^i-sil+xx=xx/A:xx+xx+xx/B:xx-xx_xx/C:xx_xx+xx/D:xx+xx_xx/E:4_4!0_xx-xx/F:xx_xx#xx_xx@xx_xx|xx_xx/G:xx_xx%xx_xx_xx/H:1_4/I:xx-xx@xx+xx&xx-xx|xx+xx/J:xx_xx/K:1+1-4",
];
#[test]
fn finish_after_steps_returns_suffix() {
    let engine = Engine::load(&[MODEL]).unwrap();
    let full = engine.synthesize(&LABELS).unwrap();
    for steps in [1usize, 3, 40] {
        let mut g = engine.generator(&LABELS).unwrap();
        let fp = g.fperiod();
        let mut head = vec![];
        for _ in 0..steps {
            let mut buf = vec![0.0; fp];
            assert_eq!(g.generate_step(&mut buf), fp);
            head.extend(buf);
        }
        assert_eq!(g.synthesized_frames(), steps);
        head.extend(g.generate_all());
        assert_eq!(head, full);
    }
}
