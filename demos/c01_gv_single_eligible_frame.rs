// Demonstration for the C01 defect repaired by the /repo commit "fix: GV rescaling is skipped when the
// eligible frames have no variance".  Place under <repo>/tests/ and run
// `cargo test --offline --test c01_gv_single_eligible_frame`: NaN at the single eligible frame on the
// original tree, finite on the repaired one.  Uses only public types (MlpgAdjust, ModelStream, ..).
use jbonsai::mlpg_adjust::MlpgAdjust;
use jbonsai::model::voice::window::{Window, Windows};
use jbonsai::model::{MeanVari, ModelStream, StreamParameter};

fn run(voiced: &[bool]) -> Vec<Vec<f64>> {
    let windows = Windows::new(vec![
        Window::new(vec![1.0]),
        Window::new(vec![-0.5, 0.0, 0.5]),
        Window::new(vec![1.0, -2.0, 1.0]),
    ]);
    let stream = StreamParameter::new(
        voiced
            .iter()
            .enumerate()
            .map(|(i, v)| {
                (
                    vec![
                        MeanVari(5.0 + 0.1 * i as f64, 0.01),
                        MeanVari(0.0, 0.02),
                        MeanVari(0.0, 0.03),
                    ],
                    if *v { 1.0 } else { 0.0 },
                )
            })
            .collect(),
    );
    let gv = Some((vec![MeanVari(0.04, 0.0001)], vec![true; voiced.len()]));
    let ms = ModelStream { vector_length: 1, stream, gv, windows: &windows };
    let durations = vec![1usize; voiced.len()];
    MlpgAdjust::new(1.0, 0.5, ms).create(&durations)
}

#[test]
fn one_eligible_frame_is_finite() {
    for pattern in [
        vec![false, true, false],
        vec![true],
        vec![false, false, true],
        vec![true, false, true, true, true],
    ] {
        let out = run(&pattern);
        for (t, row) in out.iter().enumerate() {
            assert!(row[0].is_finite(), "pattern {pattern:?}: frame {t} is {}", row[0]);
        }
    }
}
