//! Type-level witnesses for properties C02 and C03 (thorough tier).
//!
//! Each `compile_fail,E0xxx` block is paired with a compiling twin that differs only in the
//! offending line, so that a witness whose paths are merely wrong (and would "fail to compile"
//! for the wrong reason) is detected.  Run with `cargo +nightly test --doc` (the error codes are
//! only checked on nightly).

/// C02: finishing consumes the generator, so no step can follow a finish.
///
/// ```compile_fail,E0382
/// fn c02_step_after_finish(mut g: jbonsai::speech::SpeechGenerator) {
///     let mut buf = vec![0.0; g.fperiod()];
///     let _all = g.generate_all();
///     g.generate_step(&mut buf); // use of moved value
/// }
/// ```
pub struct C02StepAfterFinish;

/// C02 twin: the same calls in the legal order compile.
///
/// ```
/// fn c02_twin_step_then_finish(mut g: jbonsai::speech::SpeechGenerator) -> Vec<f64> {
///     let mut buf = vec![0.0; g.fperiod()];
///     g.generate_step(&mut buf);
///     g.generate_all()
/// }
/// ```
pub struct C02TwinStepThenFinish;

/// C03: an engine can be shared between threads (`Send + Sync`), a generator can be moved to one.
///
/// ```
/// fn c03_twin_shared<T: Send + Sync>() {}
/// fn c03_twin_moved<T: Send>() {}
/// c03_twin_shared::<jbonsai::Engine>();
/// c03_twin_shared::<jbonsai::model::VoiceSet>();
/// c03_twin_shared::<jbonsai::Condition>();
/// c03_twin_moved::<jbonsai::speech::SpeechGenerator>();
/// ```
pub struct C03TwinSendSync;

/// C03: the same probe rejects a type that is not `Sync` (here a stand-in holding a `Cell`), so the
/// probe above is not vacuous.
///
/// ```compile_fail,E0277
/// fn c03_probe_rejects_cell<T: Send + Sync>() {}
/// struct NotSync(std::cell::Cell<u32>, jbonsai::Condition);
/// c03_probe_rejects_cell::<NotSync>();
/// ```
pub struct C03ProbeRejectsCell;

/// C03: synthesis borrows the engine immutably, so it cannot change it: calling it through a
/// shared reference compiles ...
///
/// ```
/// fn c03_twin_shared_ref(e: &jbonsai::Engine, labels: Vec<jlabel_stub::L>) {}
/// mod jlabel_stub { pub struct L; }
/// fn c03_twin_synth(e: &jbonsai::Engine) -> Result<Vec<f64>, jbonsai::EngineError> {
///     let labels: [&str; 0] = [];
///     e.synthesize(&labels[..])
/// }
/// ```
pub struct C03TwinSharedRef;

/// ... while a setter through a shared reference does not.
///
/// ```compile_fail,E0596
/// fn c03_setter_needs_mut(e: &jbonsai::Engine) {
///     e.condition.set_speed(2.0); // cannot borrow as mutable
/// }
/// ```
pub struct C03SetterNeedsMut;
