#!/usr/bin/env python3
"""Operator-level mutation sweep: a systematic gap finder for the rule set (a *self-test* of the
checkers, never part of a verdict - the checks themselves stay static).

For every mutant (one token-level edit of a source line of the anchored files) a scratch copy of
the repository is made outside /repo and /verif, all 20 quick checks are run against it, and -
only if every check stays silent - the repository's own test suite is run in the copy.  A mutant
that builds, passes the suite and is not reported by any check is a *survivor*: either an
equivalent mutant or a gap in the rules, to be triaged by reading.

  tools/mutsweep.py [--repo DIR] [--files a.rs,b.rs] [--jobs N] [--limit N] [--out FILE] [--list]

Output: one TSV line per mutant: id, file:line, operator, verdict (killed:<props> | nobuild |
testfail | SURVIVOR), the mutated line.
"""
import argparse
import concurrent.futures
import os
import re
import shutil
import subprocess
import sys
import tempfile

VERIF = os.path.dirname(os.path.dirname(os.path.abspath(__file__)))
ALL = ["C%02d" % i for i in range(1, 21)]

FILES = [
    "src/duration.rs", "src/speech.rs", "src/engine.rs", "src/label.rs", "src/constants.rs",
    "src/mlpg_adjust/mod.rs", "src/mlpg_adjust/mask.rs", "src/mlpg_adjust/mlpg.rs",
    "src/model/mod.rs", "src/model/voice_set.rs", "src/model/interporation_weight.rs", "src/model/mean_vari.rs",
    "src/model/stream_parameter.rs", "src/model/model_stream.rs",
    "src/model/voice/model.rs", "src/model/voice/mod.rs", "src/model/voice/window.rs", "src/model/voice/tree.rs", "src/model/voice/question.rs",
    "src/model/parser/mod.rs", "src/model/parser/base.rs", "src/model/parser/window.rs", "src/model/parser/model/mod.rs", "src/model/parser/model/tree.rs",
    "src/model/parser/model/question.rs", "src/model/parser/header/mod.rs", "src/model/parser/header/de.rs",
    "src/vocoder/mod.rs", "src/vocoder/excitation.rs", "src/vocoder/cepstrum.rs", "src/vocoder/coefficients.rs", "src/vocoder/lsp.rs",
    "src/vocoder/generalized.rs", "src/vocoder/mglsa.rs", "src/vocoder/stage.rs", "src/vocoder/buffer.rs",
    "src/vocoder/mlsa/mod.rs", "src/vocoder/mlsa/fir.rs",
]

# (name, regex, replacement) - applied to one match at a time
OPS = [
    ("le->lt", r" <= ", " < "), ("lt->le", r" < ", " <= "), ("ge->gt", r" >= ", " > "), ("gt->ge", r" > ", " >= "),
    ("lt->gt", r" < ", " > "), ("gt->lt", r" > ", " < "),
    ("eq->ne", r" == ", " != "), ("ne->eq", r" != ", " == "),
    ("add->sub", r" \+ ", " - "), ("sub->add", r" - ", " + "), ("mul->div", r" \* ", " / "), ("div->mul", r" / ", " * "),
    ("addas->subas", r" \+= ", " -= "), ("subas->addas", r" -= ", " += "), ("mulas->divas", r" \*= ", " /= "),
    ("and->or", r" && ", " || "), ("or->and", r" \|\| ", " && "),
    ("min->max", r"\.min\(", ".max("), ("max->min", r"\.max\(", ".min("),
    ("true->false", r"\btrue\b", "false"), ("false->true", r"\bfalse\b", "true"),
    ("idx0->1", r"\[0\]", "[1]"), ("idx1->0", r"\[1\]", "[0]"),
    ("plus1->plus2", r"\+ 1\b(?!\.)", "+ 2"), ("minus1->minus0", r"- 1\b(?!\.)", "- 0"), ("plus1->plus0", r"\+ 1\b(?!\.)", "+ 0"),
    ("range0->1", r"\b0\.\.", "1.."), ("range1->0", r"\b1\.\.", "0.."), ("range2->1", r"\b2\.\.", "1.."), ("range2->3", r"\b2\.\.", "3.."),
    ("incl->excl", r"\.\.=", ".."), ("neg", r"(?<=[=(,] )-(?=[a-zA-Z(])", ""),
    ("rev-dropped", r"\.rev\(\)", ""), ("skip1->skip2", r"\.skip\(1\)", ".skip(2)"), ("skip2->skip1", r"\.skip\(2\)", ".skip(1)"),
    ("f1.0->0.0", r"\b1\.0\b", "0.0"), ("f0.0->1.0", r"\b0\.0\b", "1.0"), ("f0.5->0.25", r"\b0\.5\b", "0.25"), ("f2.0->1.0", r"\b2\.0\b", "1.0"),
    ("round->floor", r"\.round\(\)", ".floor()"), ("sqrt-dropped", r"\.sqrt\(\)", ""), ("exp-dropped", r"\.exp\(\)", ""), ("ln-dropped", r"\.ln\(\)", ""),
    ("abs-dropped", r"\.abs\(\)", ""),
]
OPS = [(n, re.compile(rx), rep) for n, rx, rep in OPS]


def code_lines(path):
    """(line number, text) of lines outside #[cfg(test)] modules, comments and attributes"""
    out = []
    lines = open(path).read().split("\n")
    in_test = False
    depth = 0
    i = 0
    while i < len(lines):
        l = lines[i]
        s = l.strip()
        if s.startswith("#[cfg(test)]"):
            # skip the following item (module) by brace matching
            j = i + 1
            depth = 0
            started = False
            while j < len(lines):
                depth += lines[j].count("{") - lines[j].count("}")
                if "{" in lines[j]:
                    started = True
                if started and depth <= 0:
                    break
                j += 1
            i = j + 1
            continue
        if s and not s.startswith("//") and not s.startswith("#[") and not s.startswith("#!") and not s.startswith("use ") and "eprintln!" not in s and "#[error" not in s:
            out.append((i + 1, l))
        i += 1
    return out


def strip_comment(l):
    k = l.find("//")
    return l if k < 0 else l[:k]


def enumerate_mutants(repo, files):
    muts = []
    for f in files:
        p = os.path.join(repo, f)
        if not os.path.exists(p):
            continue
        for ln, text in code_lines(p):
            code = strip_comment(text)
            # string literals are left alone
            if '"' in code:
                segs = code.split('"')
                mask = "".join(seg if k % 2 == 0 else "\0" * (len(seg)) for k, seg in enumerate(segs))
                mask = mask  # same length minus quotes: recompute positions on the original instead
                spans = []
                pos = 0
                for k, seg in enumerate(segs):
                    if k % 2 == 1:
                        spans.append((pos, pos + len(seg)))
                    pos += len(seg) + 1
            else:
                spans = []
            for name, rx, rep in OPS:
                for m in rx.finditer(code):
                    if any(a <= m.start() < b for a, b in spans):
                        continue
                    new = text[:m.start()] + rx.sub(rep, text[m.start():m.end()], count=1) + text[m.end():]
                    if new != text:
                        muts.append((f, ln, name, text, new))
            # statement deletion: a call / assignment statement on one line
            s = code.strip()
            if s.endswith(";") and not s.startswith(("let ", "return", "use ", "pub ", "const ", "type ", "}", "break", "continue")) and s.count("(") == s.count(")") and "{" not in s:
                muts.append((f, ln, "stmt-deleted", text, ""))
    return muts


def sh(cmd, cwd, env=None, timeout=1800):
    e = dict(os.environ, CARGO_NET_OFFLINE="true")
    if env:
        e.update(env)
    try:
        r = subprocess.run(cmd, cwd=cwd, env=e, stdout=subprocess.PIPE, stderr=subprocess.STDOUT, text=True, timeout=timeout)
        return r.returncode, r.stdout
    except subprocess.TimeoutExpired as ex:
        return 124, (ex.stdout or "") if isinstance(ex.stdout, str) else ""


def run_one(args):
    k, repo, mut, tdir = args
    f, ln, name, old, new = mut
    d = tempfile.mkdtemp(prefix="jbv-sweep.")
    try:
        subprocess.check_call(["rsync", "-a", "--exclude", "target", "--exclude", ".git", "--exclude", "models", "--exclude", "result", repo + "/", d + "/"])
        os.symlink(os.path.join(repo, "models"), os.path.join(d, "models"))
        p = os.path.join(d, f)
        lines = open(p).read().split("\n")
        if lines[ln - 1] != old:
            return k, mut, "stale", ""
        lines[ln - 1] = new
        open(p, "w").write("\n".join(lines))
        env = {"JBV_REPO": d, "JBV_EVIDENCE": os.path.join(d, "_evidence")}
        fired = []
        rc, out = sh([os.path.join(VERIF, "check"), "C01", "--tier", "quick"], VERIF, env)
        if "cargo check failed" in out or "could not compile" in out:
            return k, mut, "nobuild", ""
        if "internal-error" in out:
            return k, mut, "checker-error:C01", out[-300:]
        if rc == 1:
            fired.append("C01")
        for pr in ALL[1:]:
            rc, out = sh([os.path.join(VERIF, "check"), pr, "--tier", "quick"], VERIF, env)
            if "internal-error" in out:
                return k, mut, "checker-error:" + pr, out[-300:]
            if rc == 1:
                fired.append(pr)
        if fired:
            return k, mut, "killed:" + ",".join(fired), ""
        rc, out = sh(["cargo", "test", "--offline", "--lib", "--", "--skip", "multi"], d, {"CARGO_TARGET_DIR": tdir}, timeout=180)
        if rc == 124:
            return k, mut, "testfail(timeout)", ""
        m = re.search(r"test result: \w+\. (\d+) passed; (\d+) failed", out)
        if not m:
            return k, mut, "nobuild(test)", out[-200:]
        if int(m.group(2)) > 0 or int(m.group(1)) < 30:
            return k, mut, "testfail", ""
        return k, mut, "SURVIVOR", ""
    finally:
        shutil.rmtree(d, ignore_errors=True)
        base = os.path.basename(d)
        cache = os.path.join(VERIF, ".cache")
        if os.path.isdir(cache):
            for fn in os.listdir(cache):
                if base in fn:
                    try:
                        os.remove(os.path.join(cache, fn))
                    except OSError:
                        pass


def main():
    ap = argparse.ArgumentParser()
    ap.add_argument("--repo", default=os.environ.get("VP_RUN_REPO") or "/repo")
    ap.add_argument("--files")
    ap.add_argument("--jobs", type=int, default=12)
    ap.add_argument("--limit", type=int, default=0)
    ap.add_argument("--stride", type=int, default=1, help="take every n-th mutant")
    ap.add_argument("--offset", type=int, default=0)
    ap.add_argument("--out", default="mutsweep.tsv")
    ap.add_argument("--list", action="store_true")
    a = ap.parse_args()
    files = a.files.split(",") if a.files else FILES
    muts = enumerate_mutants(a.repo, files)
    muts = muts[a.offset::a.stride]
    if a.limit:
        muts = muts[:a.limit]
    print("%d mutants" % len(muts), flush=True)
    if a.list:
        for f, ln, name, old, new in muts:
            print("%s:%d\t%s\t%s" % (f, ln, name, new.strip()))
        return 0
    tdirs = [tempfile.mkdtemp(prefix="jbv-sweep-target.") for _ in range(a.jobs)]
    import itertools
    import threading
    pool = list(tdirs)
    lock = threading.Lock()

    def job(x):
        k, mut = x
        with lock:
            td = pool.pop()
        try:
            return run_one((k, a.repo, mut, td))
        finally:
            with lock:
                pool.append(td)
    n = {"SURVIVOR": 0}
    try:
        with open(a.out, "w") as fo, concurrent.futures.ThreadPoolExecutor(max_workers=a.jobs) as ex:
            for k, mut, verdict, info in ex.map(job, enumerate(muts)):
                f, ln, name, old, new = mut
                fo.write("%d\t%s:%d\t%s\t%s\t%s\t%s\n" % (k, f, ln, name, verdict, new.strip()[:160], info.replace("\n", " ")[:200]))
                fo.flush()
                key = verdict.split(":")[0]
                n[key] = n.get(key, 0) + 1
                if verdict == "SURVIVOR" or verdict.startswith("checker-error"):
                    print("%s %s:%d %s  %s" % (verdict, f, ln, name, new.strip()[:120]), flush=True)
    finally:
        for td in tdirs:
            shutil.rmtree(td, ignore_errors=True)
    print("summary:", n)
    return 0


if __name__ == "__main__":
    sys.exit(main())
