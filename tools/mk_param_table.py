#!/usr/bin/env python3
"""Record the parameter names of every function of the pinned tree by position
(jbv/param_names.json).  The loader uses the table only to undo a *rename* of a parameter (a
behaviour-preserving edit): rules may then keep naming parameters the way the pinned tree does."""
import json
import os
import sys

VERIF = os.path.dirname(os.path.dirname(os.path.abspath(__file__)))
sys.path.insert(0, VERIF)
os.environ["JBV_NO_CANON"] = "1"
from jbv import facts  # noqa: E402

table = {}
for cfg in ("default", "nodefault", "simd"):
    p = facts.load(cfg)
    for path, b in p.bodies.items():
        if b.kind == "Closure":
            continue
        names = [b.local_name(l) for l in range(1, b.argc + 1)]
        if any(names):
            table.setdefault(path, names)
json.dump(table, open(os.path.join(VERIF, "jbv", "param_names.json"), "w"), indent=0, sort_keys=True)
print(len(table), "functions")
