#!/usr/bin/env python3
"""Record the parameter names of every function of the pinned tree by position
(jbv/param_names.json).  The loader uses the table only to undo a *rename* of a parameter (a
behaviour-preserving edit): rules may then keep naming parameters the way the pinned tree does."""
import json
import os
import sys

VERIF = os.path.dirname(os.path.dirname(os.path.abspath(__file__)))
sys.path.insert(0, VERIF)
os.environ["JBV_NO_CANON"] = "1"
from jbv import facts  # noqa: E402

table = {}
allfns = set()
sigs = {}
os.environ["JBV_NO_INLINE"] = "1"
for cfg in ("default", "nodefault", "simd"):
    p = facts.load(cfg)
    for path, b in p.bodies.items():
        if b.kind == "Closure":
            continue
        allfns.add(path)
        sigs.setdefault(path, [b.local_ty(0), [b.local_ty(l) for l in range(1, b.argc + 1)]])
        names = [b.local_name(l) for l in range(1, b.argc + 1)]
        if any(names):
            table.setdefault(path, names)
json.dump(table, open(os.path.join(VERIF, "jbv", "param_names.json"), "w"), indent=0, sort_keys=True)
fields = {}
for cfg in ("default", "nodefault", "simd"):
    p = facts.load(cfg)
    for path, a in p.adts.items():
        fields.setdefault(path, {v["name"]: [f["name"] for f in v["fields"]] for v in a.get("variants", [])})
json.dump(fields, open(os.path.join(VERIF, "jbv", "pinned_fields.json"), "w"), indent=0, sort_keys=True)
consts = set()
for cfg in ("default", "nodefault", "simd"):
    p = facts.load(cfg)
    consts |= set(p.consts)
json.dump(sorted(consts), open(os.path.join(VERIF, "jbv", "pinned_consts.json"), "w"), indent=0)
json.dump(sorted(allfns), open(os.path.join(VERIF, "jbv", "pinned_fns.json"), "w"), indent=0)
json.dump(sigs, open(os.path.join(VERIF, "jbv", "pinned_sigs.json"), "w"), indent=0, sort_keys=True)
print(len(table), "functions with named parameters;", len(allfns), "pinned functions")
