#!/usr/bin/env python3
"""Apply a patch to a scratch copy of /repo (outside /repo and /verif), run checks against it,
report which fire, remove the copy.

  tools/mutest.py [--test] [--keep] PATCH PROP [PROP...]

PATCH is a unified diff (git apply) relative to the repository root.
Exit status: 0 if at least one of the listed checks reports a VIOLATION, 1 otherwise.
--test additionally runs the repository's test suite in the scratch copy (models symlinked).
"""
import argparse
import os
import shutil
import subprocess
import sys
import tempfile

VERIF = os.path.dirname(os.path.dirname(os.path.abspath(__file__)))
REPO = os.environ.get("JBV_MUT_REPO", "/repo")


def make_scratch():
    d = tempfile.mkdtemp(prefix="jbv-mut.")
    subprocess.check_call(["rsync", "-a", "--exclude", "target", "--exclude", ".git", "--exclude", "models",
                           "--exclude", "result", REPO + "/", d + "/"])
    os.symlink(os.path.join(REPO, "models"), os.path.join(d, "models"))
    return d


def cleanup(d):
    base = os.path.basename(d)
    shutil.rmtree(d, ignore_errors=True)
    cache = os.path.join(VERIF, ".cache")
    if os.path.isdir(cache):
        for f in os.listdir(cache):
            if base in f:
                try:
                    os.remove(os.path.join(cache, f))
                except OSError:
                    pass


def run_checks(d, props, tier="quick"):
    env = dict(os.environ, JBV_REPO=d, JBV_EVIDENCE=os.path.join(d, "_evidence"))
    res = {}
    for pr in props:
        r = subprocess.run([os.path.join(VERIF, "check"), pr, "--tier", tier], env=env, cwd=VERIF,
                           stdout=subprocess.PIPE, stderr=subprocess.STDOUT, text=True)
        res[pr] = (r.returncode, r.stdout)
    return res


def main():
    ap = argparse.ArgumentParser()
    ap.add_argument("--test", action="store_true")
    ap.add_argument("--keep", action="store_true")
    ap.add_argument("--tier", default="quick")
    ap.add_argument("--quiet", action="store_true")
    ap.add_argument("--sed", action="append", default=[], help="FILE ~~ PYTHON-REGEX ~~ REPLACEMENT (first match only); may be repeated; then PATCH is a label")
    ap.add_argument("patch")
    ap.add_argument("props", nargs="+")
    a = ap.parse_args()
    d = make_scratch()
    try:
        if a.sed:
            import re
            for spec in a.sed:
                f, rx, rep = spec.split(" ~~ ", 2)
                fp = os.path.join(d, f)
                src = open(fp).read()
                new, n = re.subn(rx, rep, src, count=1, flags=re.S)
                if n != 1:
                    print("SED DID NOT MATCH: " + spec)
                    return 2
                open(fp, "w").write(new)
            r = subprocess.run(["true"])
        else:
          r = subprocess.run(["git", "apply", "--unsafe-paths", "--directory", d, os.path.abspath(a.patch)],
                           cwd="/", stdout=subprocess.PIPE, stderr=subprocess.STDOUT, text=True)
        if r.returncode != 0 and not a.sed:
            r = subprocess.run(["patch", "-p1", "-d", d, "-i", os.path.abspath(a.patch)],
                               stdout=subprocess.PIPE, stderr=subprocess.STDOUT, text=True)
            if r.returncode != 0:
                print("PATCH DOES NOT APPLY:\n" + r.stdout)
                return 2
        if a.test:
            t = subprocess.run(["cargo", "test", "--offline", "--lib", "--", "--skip", "multi"], cwd=d,
                               env=dict(os.environ, CARGO_TARGET_DIR=os.path.join(d, "target"), CARGO_NET_OFFLINE="true"),
                               stdout=subprocess.PIPE, stderr=subprocess.STDOUT, text=True)
            tail = [l for l in t.stdout.splitlines() if l.startswith("test result") or "FAILED" in l or l.startswith("error")]
            print("tests: rc=%d %s" % (t.returncode, " | ".join(tail[:6])))
        res = run_checks(d, a.props, a.tier)
        fired = False
        for pr, (rc, out) in res.items():
            vio = [l for l in out.splitlines() if l.startswith("VIOLATION") or l.startswith("  ")]
            if "internal-error" in out or "cargo check failed" in out:
                rc = 3
            print("%s: rc=%d %s" % (pr, rc, "FIRED" if rc == 1 else ("silent" if rc == 0 else "ERROR (mutant does not build or checker crashed)")))
            if not a.quiet or rc not in (0, 1):
                for l in (vio if rc == 1 else out.splitlines()[-3:]):
                    print("   " + l[:400].replace(d + "/", ""))
            fired |= rc == 1
        return 0 if fired else 1
    finally:
        if not a.keep:
            cleanup(d)
        else:
            print("kept", d)


if __name__ == "__main__":
    sys.exit(main())
