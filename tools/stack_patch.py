#!/usr/bin/env python3
"""Build a corpus patch = a stored refactoring + one further edit (a "broken twin").
usage: tools/stack_patch.py <base patch relative to /verif> <out patch relative to /verif> FILE REGEX REPL [FILE REGEX REPL ..]
The result is a diff against /repo HEAD."""
import os, re, subprocess, sys, tempfile, shutil
VERIF = os.path.dirname(os.path.dirname(os.path.abspath(__file__)))
base, out, rest = sys.argv[1], sys.argv[2], sys.argv[3:]
d = tempfile.mkdtemp(prefix="jbv-stack.")
try:
    subprocess.run("git -C /repo archive HEAD | tar -x -C %s" % d, shell=True, check=True)
    subprocess.run(["git", "init", "-q", "."], cwd=d, check=True)
    subprocess.run("git add -A >/dev/null && git -c user.email=a@b -c user.name=x commit -qm base", shell=True, cwd=d, check=True)
    subprocess.run(["patch", "-p1", "-s", "-i", os.path.join(VERIF, base)], cwd=d, check=True)
    for i in range(0, len(rest), 3):
        f, rx, rp = rest[i:i + 3]
        p = os.path.join(d, f)
        s = open(p).read()
        s2, n = re.subn(rx, rp, s, count=1, flags=re.S)
        if n != 1:
            sys.exit("no match for %r in %s" % (rx, f))
        open(p, "w").write(s2)
    r = subprocess.run(["git", "diff"], cwd=d, stdout=subprocess.PIPE, text=True, check=True)
    open(os.path.join(VERIF, out), "w").write(r.stdout)
    print(out, len(r.stdout.splitlines()), "lines")
finally:
    shutil.rmtree(d, ignore_errors=True)
