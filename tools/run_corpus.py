#!/usr/bin/env python3
"""Run the mutation / refactor corpus (mutants/corpus.tsv) in parallel against scratch copies.
Each line: label, props, expectation, sed specs.  Reports mismatches.  Never touches /repo."""
import concurrent.futures
import os
import subprocess
import sys

VERIF = os.path.dirname(os.path.dirname(os.path.abspath(__file__)))


def run(line):
    label, props, expect, specs = line.rstrip("\n").split("\t")
    one = os.environ.get("JBV_CORPUS_PROP")
    if one and one in props.split(","):
        # the thorough tier of one property: judge the entry by that property's check alone
        # (a FIRE entry listed for several properties fires if *any* of them reports it, so such
        # an entry is only run in full)
        if expect == "SILENT" or props.split(",") == [one]:
            props = one
    cmd = [os.path.join(VERIF, "tools", "mutest.py"), "--quiet"]
    if specs.startswith("PATCH:"):
        # a stored diff (relative to /verif), for edits a single regex substitution cannot express
        cmd += [os.path.join(VERIF, specs[len("PATCH:"):].strip())] + props.split(",")
    else:
        for s in specs.split(" &&& "):
            cmd += ["--sed", s]
        cmd += [label] + props.split(",")
    r = subprocess.run(cmd, stdout=subprocess.PIPE, stderr=subprocess.STDOUT, text=True)
    fired = r.returncode == 0
    if r.returncode == 2 or "ERROR" in r.stdout:
        return label, expect, "ERROR", r.stdout
    got = "FIRE" if fired else "SILENT"
    return label, expect, got, r.stdout


def main():
    only = set(sys.argv[1:])
    # work from a snapshot of /repo's HEAD, so that a seed evaluation that patches /repo's working
    # tree for a moment cannot leak into a scratch copy
    if not os.environ.get("JBV_MUT_REPO"):
        import atexit
        import shutil
        import tempfile
        snap = tempfile.mkdtemp(prefix="jbv-corpus-repo.")
        subprocess.run("git -C /repo archive HEAD | tar -x -C %s" % snap, shell=True, check=True)
        if os.path.isdir("/repo/models") and not os.path.exists(os.path.join(snap, "models")):
            os.symlink("/repo/models", os.path.join(snap, "models"))
        os.environ["JBV_MUT_REPO"] = snap
        atexit.register(lambda: shutil.rmtree(snap, ignore_errors=True))
    lines = [l for l in open(os.path.join(VERIF, "mutants", "corpus.tsv")) if l.strip() and not l.startswith("#")]
    if only:
        lines = [l for l in lines if l.split("\t")[0] in only or any(o in l.split("\t")[1].split(",") for o in only)]
    bad = 0
    with concurrent.futures.ThreadPoolExecutor(max_workers=8) as ex:
        for label, expect, got, out in ex.map(run, lines):
            ok = expect == got
            bad += not ok
            print("%-40s expect=%-6s got=%-6s %s" % (label, expect, got, "ok" if ok else "MISMATCH"))
            if not ok:
                print("    " + out.replace("\n", "\n    ")[:1500])
    print("%d entries, %d mismatches" % (len(lines), bad))
    return 1 if bad else 0


if __name__ == "__main__":
    sys.exit(main())
