#!/usr/bin/env python3
"""Create scratch worktrees /tmp/seed/<ID><suffix> of /repo HEAD and the prompt / property files for
seeding sub-agents (they get the property text and the worktree only - nothing from /verif).
  tools/seed_prompts.py <suffix> [ID ...]        e.g.  tools/seed_prompts.py b C01 C02
With a non-empty suffix the prompt tells the agent what the earlier rounds already tried."""
import json
import os
import subprocess
import sys

VERIF = os.path.dirname(os.path.dirname(os.path.abspath(__file__)))
NEEDS = {
    "C01": "an unusual but valid voice or setting (two-stream voice without LPF, windows wider than the bundled ones, a stream with one window only, vector length 1, a very short utterance, an utterance with no voiced frame, extreme speed)",
    "C02": "a particular way of driving the generator (generate_step with a buffer shorter/longer than fperiod, mixing generate_step and generate_all, calling after the end, a frame period that is not the bundled one)",
    "C03": "a particular sequence of calls (two generators alive at once, a setter between generator() and synthesis, the same Engine used from two threads, a clone of the engine)",
    "C04": "a voice file with a particular but valid layout (a tree with a single leaf, negative vs positive node ids, a stream with msd, more than one tree per state, windows listed in a different order, an option key the bundled voice does not use)",
    "C05": "a particular voiced/unvoiced pattern, a window of different width than the bundled ones, a stream with more or fewer windows, a particular duration assignment",
    "C06": "direct use of the public Vocoder with stage 0 (mel-cepstral family): a cepstral order other than the bundled voice's (e.g. 2..40), alpha = 0 or a small alpha, a particular frequency region, a spectrum with large dynamic range, the first frame vs later frames",
    "C07": "a two-stream voice / nlpf = 0, F0 at the 20 Hz / 20 kHz limits, a voiced-to-unvoiced transition, a very long or short frame period, a low-pass filter of a different order",
    "C08": "a non-default speed (very slow or very fast), a duration model with particular means/variances (tiny variance, mean below 1), an utterance with one label",
    "C09": "alignment enabled with particular time stamps (end before start, equal times, a label without times between timed ones, times not a multiple of the frame period, very large times)",
    "C10": "two or more voices with non-uniform interpolation weights (e.g. load the bundled voice twice, or a modified copy of it) and per-kind weights (duration / parameter / GV) that differ from each other",
    "C11": "a non-default MSD threshold or GV weight on one stream only, an MSD value exactly at the threshold, a stream that is not MSD",
    "C12": "a non-default GV weight, a label inside the voice's GV-off context, an utterance where no frame is GV-eligible, a stream without GV",
    "C13": "an LSP-family voice or direct use of the public Vocoder with stage >= 1 (spectrum = [gain, w1..wm] with increasing frequencies in (0, pi)), odd vs even order, stage 1..4, linear vs log gain, alpha != 0",
    "C14": "a non-zero postfilter coefficient beta, a particular alpha, a particular cepstral order (e.g. order 2 or 3), the LSP filter family (stage != 0)",
    "C15": "a non-zero additional half tone, a value that drives F0 to the 20 Hz / 20 kHz limits, negative values, particular voiced/unvoiced boundaries",
    "C16": "a non-zero volume in dB (positive or negative), one of the two filter families, the first frame vs later frames, volume changed between two syntheses",
    "C17": "a particular container type for the labels, blank lines at particular positions, time stamps of particular form/size, a malformed line of one particular kind",
    "C18": "one particular kind of malformed voice file (truncated at a particular section, a header number replaced by 0 or a huge value, a missing key, a tree referring to a missing question or pdf, bad UTF-8, a window file with too few numbers)",
    "C19": "two or more voices, a weight vector of a particular wrong shape (wrong length, sum != 1, NaN, negative entries), a particular setter (duration / parameter / gv) or stream index",
    "C20": "one particular setter/getter at one particular boundary or argument class (exactly at the limit, below it, above it, NaN/inf, a stream index other than 0), or one default of a freshly loaded engine",
}


def tried(pid):
    out = []
    sd = os.path.join(VERIF, "seeded")
    for d in sorted(os.listdir(sd)):
        mp = os.path.join(sd, d, "meta.json")
        if d.startswith(pid) and os.path.exists(mp):
            m = json.load(open(mp))
            if m.get("summary"):
                out.append(m["summary"])
    return out


def main():
    suffix = sys.argv[1] if len(sys.argv) > 1 else ""
    ids = sys.argv[2:] or sorted(NEEDS)
    os.makedirs("/tmp/seed", exist_ok=True)
    # suffix starting with "r": behaviour-preserving refactorings (the checks must stay silent)
    tname = "seed_prompt_refactor.tmpl" if suffix.startswith("r") else "seed_prompt.tmpl"
    tmpl = open(os.path.join(VERIF, "tools", tname)).read()
    props = {json.loads(l)["id"]: json.loads(l) for l in open(os.path.join(VERIF, "properties.jsonl"))}
    for pid in ids:
        wt = "/tmp/seed/%s%s" % (pid, suffix)
        if not os.path.exists(wt):
            subprocess.run(["git", "-C", "/repo", "worktree", "add", "--detach", "-q", wt, "HEAD"], check=True)
        json.dump(props[pid], open(wt + ".property.json", "w"), indent=1)
        tr = tried(pid) if suffix and not suffix.startswith("r") else []
        ttxt = ""
        if suffix.startswith("r"):
            # earlier refactorings of the same property: name the functions they touched
            import re
            fns = set()
            rdir = os.path.join(VERIF, "refactors")
            for d in sorted(os.listdir(rdir)) if os.path.isdir(rdir) else []:
                pf = os.path.join(rdir, d, "patch.diff")
                if d.startswith(pid) and os.path.exists(pf):
                    for l in open(pf):
                        m = re.match(r"^@@ .* @@.*?\bfn (\w+)", l)
                        if m:
                            fns.add(m.group(1))
                        m = re.match(r"^[-+]\s*(?:pub(?:\([a-z]+\))? )?fn (\w+)", l)
                        if m:
                            fns.add(m.group(1))
            if fns:
                ttxt = " An earlier clean-up already reworked these functions: " + ", ".join(sorted(fns)) + ". Prefer OTHER functions among the property's anchors (and their callees in the same files), or, if you touch the same ones, clearly different transformations."
        if tr:
            ttxt = " Earlier contributors already tried the following, so pick a DIFFERENT clause of the property and a different mechanism / place in the code: " + "; ".join(tr) + "."
        open(wt + ".prompt.txt", "w").write(tmpl.replace("@WT@", wt).replace("@NEEDS@", NEEDS[pid]).replace("@TRIED@", ttxt))
        print(wt)


if __name__ == "__main__":
    main()
