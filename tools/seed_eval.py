#!/usr/bin/env python3
"""Confirm a seeded change produced by a sub-agent and run the checks against it.

  tools/seed_eval.py <ID> [--props C01,C02,...] [--patch other.diff] [--keep-name NAME]

1. in the agent's scratch worktree /tmp/seed/<ID> (change applied): build, run the lib suite
   (must be 30 passed / 2 known failures), run tests/seed_demo.rs (must FAIL), reverse-apply the src
   change, run the demo again (must PASS), re-apply it;
2. apply patch.diff to /repo, run every check (or --props), undo with `git checkout -- .`;
3. store patch.diff, the demo and meta.json under /verif/seeded/<NAME>/.
"""
import argparse
import json
import os
import re
import shutil
import subprocess
import sys

VERIF = os.path.dirname(os.path.dirname(os.path.abspath(__file__)))
ALL = ["C01", "C02", "C03", "C04", "C05", "C06", "C07", "C08", "C09", "C10", "C11", "C12", "C13", "C14", "C15", "C16", "C17", "C18", "C19", "C20"]


def sh(cmd, cwd, env=None, timeout=3600):
    e = dict(os.environ, CARGO_NET_OFFLINE="true")
    if env:
        e.update(env)
    r = subprocess.run(cmd, cwd=cwd, env=e, shell=isinstance(cmd, str), stdout=subprocess.PIPE, stderr=subprocess.STDOUT, text=True, timeout=timeout)
    return r.returncode, r.stdout


def suite(wt):
    rc, out = sh("cargo test --offline --lib 2>&1", wt, {"CARGO_TARGET_DIR": wt + "/target"})
    m = re.search(r"test result: \w+\. (\d+) passed; (\d+) failed", out)
    failed = sorted(re.findall(r"^test (\S+) \.\.\. FAILED", out, re.M))
    return (int(m.group(1)), int(m.group(2)), failed) if m else (None, None, out[-500:])


def demo(wt):
    rc, out = sh("cargo test --offline --test seed_demo 2>&1", wt, {"CARGO_TARGET_DIR": wt + "/target"})
    m = re.findall(r"test result: \w+\. (\d+) passed; (\d+) failed", out)
    return rc, m, out


def main():
    ap = argparse.ArgumentParser()
    ap.add_argument("id")
    ap.add_argument("--props", default=",".join(ALL))
    ap.add_argument("--patch")
    ap.add_argument("--name")
    ap.add_argument("--skip-confirm", action="store_true")
    ap.add_argument("--refactor", action="store_true", help="the change is a behaviour-preserving refactoring: the demo must pass with and without it, and every check must stay silent; stored under /verif/refactors/")
    ap.add_argument("--confirm-only", action="store_true", help="only the worktree phase (build, suite, demo with / without the change); the result is kept in /tmp/seed/_confirm_<id>.json for the later full run - this phase does not touch /repo, so many can run side by side")
    ap.add_argument("--recheck", action="store_true", help="re-run the checks against the stored patch (worktree gone); keeps first_run_caught")
    a = ap.parse_args()
    wt = "/tmp/seed/" + a.id
    name = a.name or a.id
    pid = a.id[:3]
    meta = {"breaks_property": pid, "scratch_worktree": wt, "round": 1 + (ord(a.id[3]) - ord("a") if len(a.id) > 3 else 0)}
    if a.recheck:
        a.skip_confirm = True
        a.patch = os.path.join(VERIF, "refactors" if a.refactor else "seeded", name, "patch.diff")
        meta = {}
    cj = "/tmp/seed/_confirm_%s.json" % a.id
    if not a.skip_confirm and not a.confirm_only and os.path.exists(cj):
        meta.update(json.load(open(cj)))
        a.skip_confirm = True
        print("confirm (cached):", json.dumps({k: meta.get(k) for k in ("build_with_change", "suite_with_change", "demo_with_change", "demo_without_change", "confirmed")}))
    if not a.skip_confirm:
        rc, out = sh("cargo build --offline 2>&1 | tail -2", wt, {"CARGO_TARGET_DIR": wt + "/target"})
        meta["build_with_change"] = "ok" if "Finished" in out else out[-300:]
        p, f, failed = suite(wt)
        meta["suite_with_change"] = {"passed": p, "failed": f, "failed_tests": failed}
        rc1, m1, out1 = demo(wt)
        meta["demo_with_change"] = {"rc": rc1, "results": m1}
        # NOT git stash: refs/stash is shared by all worktrees of one repository
        sh("git diff -- src > /tmp/seed/_%s.src.diff && git apply -R /tmp/seed/_%s.src.diff" % (a.id, a.id), wt)
        try:
            rc2, m2, out2 = demo(wt)
            p0, f0, failed0 = suite(wt)
        finally:
            sh("git apply /tmp/seed/_%s.src.diff" % a.id, wt)
        meta["demo_without_change"] = {"rc": rc2, "results": m2}
        meta["suite_without_change"] = {"passed": p0, "failed": f0, "failed_tests": failed0}
        if a.refactor:
            ok = (p == 30 and failed == ["model::tests::multiple_models", "tests::bonsai_multi"] and rc1 == 0 and rc2 == 0)
        else:
            ok = (p == 30 and failed == ["model::tests::multiple_models", "tests::bonsai_multi"] and rc1 != 0 and rc2 == 0)
        meta["confirmed"] = bool(ok)
        print("confirm:", json.dumps({k: meta[k] for k in ("build_with_change", "suite_with_change", "demo_with_change", "demo_without_change", "confirmed")}))
        if not ok:
            print("NOT CONFIRMED")
        if a.confirm_only:
            json.dump({k: meta[k] for k in ("build_with_change", "suite_with_change", "demo_with_change", "demo_without_change", "suite_without_change", "confirmed")}, open(cj, "w"))
            return 0
    patch = a.patch or os.path.join(wt, "patch.diff")
    rc, out = sh(["git", "-C", "/repo", "apply", "--check", patch], "/")
    if rc != 0:
        print("patch does not apply to /repo HEAD:\n" + out)
        return 2
    sh(["git", "-C", "/repo", "apply", patch], "/")
    fired = {}
    try:
        import concurrent.futures
        props_ = a.props.split(",")

        def run1(pr):
            return pr, sh([os.path.join(VERIF, "check"), pr, "--tier", "quick"], VERIF, {"JBV_EVIDENCE": "/tmp/seed/_evidence_%s_%s" % (name, pr)})
        # the first check extracts the facts of the changed tree; the others reuse the cache
        results = [run1(props_[0])]
        with concurrent.futures.ThreadPoolExecutor(max_workers=8) as ex:
            results += list(ex.map(run1, props_[1:]))
        for pr, (rc, out) in results:
            vio = [l.strip() for l in out.splitlines() if l.startswith("  ") and "rule=" in l]
            if "internal-error" in out:
                fired[pr] = {"rc": rc, "error": out[-400:]}
            elif rc == 1:
                fired[pr] = {"rc": 1, "violations": [v[:400] for v in vio[:6]]}
            print("%s: %s" % (pr, "FIRED" if rc == 1 else ("silent" if rc == 0 else "ERROR")))
            for v in vio[:4]:
                print("     " + v[:300])
    finally:
        sh(["git", "-C", "/repo", "checkout", "--", "."], "/")
        # files a patch *added* are untracked: checkout does not remove them
        sh(["git", "-C", "/repo", "clean", "-fdq", "--", "src"], "/")
        for pr_ in a.props.split(","):
            shutil.rmtree("/tmp/seed/_evidence_%s_%s" % (name, pr_), ignore_errors=True)
    meta["checks_run"] = a.props.split(",")
    meta["checks_fired"] = fired
    meta["caught_by_own_property_check"] = pid in fired and "violations" in fired.get(pid, {})
    dst = os.path.join(VERIF, "refactors" if a.refactor else "seeded", name)
    if a.refactor:
        meta["kind"] = "behaviour-preserving refactoring: every check must stay silent"
        meta["false_alarms"] = sorted(fired)
    os.makedirs(dst, exist_ok=True)
    if not a.recheck:
        shutil.copy(patch, os.path.join(dst, "patch.diff"))
        shutil.copy(os.path.join(wt, "tests", "seed_demo.rs"), os.path.join(dst, "seed_demo.rs"))
    rep = os.path.join(wt, "REPORT.md")
    if os.path.exists(rep):
        shutil.copy(rep, os.path.join(dst, "AGENT_REPORT.md"))
    mp = os.path.join(dst, "meta.json")
    old = {}
    if os.path.exists(mp):
        old = json.load(open(mp))
    first = old.get("first_run_caught", meta["caught_by_own_property_check"])
    old.update(meta)
    old["first_run_caught"] = first
    json.dump(old, open(mp, "w"), indent=1)
    print("stored", dst, "caught=%s" % meta["caught_by_own_property_check"], "fired:", sorted(fired))
    return 0


if __name__ == "__main__":
    sys.exit(main())
