#!/usr/bin/env python3
"""Generate /verif/MANIFEST.json from the table below (single source of truth)."""
import json
import os

VERIF = os.path.dirname(os.path.dirname(os.path.abspath(__file__)))

TRUST = ("Trusted base: rustc's MIR construction and trait resolution on the installed nightly; the "
         "model table of external callees (jbv/model.py); audited T2 tables in the rule modules; "
         "src/vocoder/mlsa/fir_simd.rs is not analysed (does not compile here). Scope: engines built by "
         "Engine::load.")

# id -> (technique, claim text, design ref)
CHECKS = {}

NOT_APPLICABLE = {}


def claim(pid, technique, text, ref=None):
    CHECKS[pid] = (technique, text, ref or ("DESIGN.md §5 " + pid))


claim("C06", "numerical certificate on an evaluated constant (maximum principle + winding number + Lipschitz-sampled circle for the Pade row) + recurrence recognition over symbolised loop variables with parity-guarded feedback signs + statement-order rule for the simultaneous all-pass update + call-argument / def-use plumbing of the stage-zero branch, over rustc MIR",
      "Sound static decision of the structural clauses of C06 (the frequency-response law itself is numerical and NOT decided): the Pade row the stage-zero filter reads approximates exp to 0.005 neper on the whole complex disc |w| <= 2 (the property's own numbers; any table of that quality passes) and is row N-1 of the triangular table with N >= 5; each of the two cascaded Pade sections is direct form II with stages N-1 down to 1, feedback signs + for odd and - for even stages, the fed-back sample stored in state 0 before the feed-forward sum; the first section's basic filter is b1 * (d <- (1-a^2) u + a d), the second's is the warped FIR filter (d[0] <- x, one all-pass sweep of the whole delay line computed from the old values, y = sum_{i>=2} d[i] b[i], one delay element per cepstral coefficient); in Vocoder::synthesize the excitation is multiplied by exp(b0) before df(x, self.alpha, b), b moves by (b_next - b)/fperiod per sample over all coefficients and equals b_next = mc2b(MelCepstrum::new(spectrum, self.alpha)) afterwards (and on the first frame); mc2b is b_last = c_last, b_i = c_i - alpha b_{i+1} downwards, a copy for alpha = 0. Each is a necessary condition of `the pulse response has log-magnitude sum c_m cos(m w~)`. NOT decided: the response law / the 0.01 neper figure end to end, the warped frequency axis, equivalent filter realisations in a different state representation (reported until taught), the SIMD FIR variant (does not compile here).",
      "DESIGN.md §9.9")

claim("C13", "recurrence recognition over symbolised loop variables + role analysis of the parameter vector's elements (which elements reach a cosine, which the gain slot) + parity-guarded aggregate values + call-argument plumbing, over rustc MIR",
      "Sound static decision of the structural clauses of C13, all in the LSP -> LPC -> MGC conversion: the order is len - 1 and A(z) is built from the line spectral frequencies only (P factors from elements 1,3,.., Q factors from elements 2,4,.., each -2cos w; element 0, the gain, never enters a cosine - the pinned tree violated this, repaired); section counts per parity; the two second-order-section chains, their inputs, a[k-1] = -(P+Q)/2 and the final shift; the gain slot (exp under log gain), the -stage scaling after ignorm and mgc2mgc(len-1, alpha, gamma); gamma = -1/stage and the constructor argument order. These are necessary conditions of `the response is K/|A|^s`. NOT decided: the MGLSA filter sections, frequency warping, the 0.001 neper law, decay for well-separated frequencies (numerical).")

claim("C03", "effect/purity analysis of the resolved call-graph closure + deep type walk (no interior mutability) + trait-solver Send/Sync facts + setter backward slices, over rustc MIR",
      "Sound static decision that every function body reachable from Engine::synthesize/generator and SpeechGenerator's API is free of effects other than allocation and stderr diagnostics, reads only its arguments and constants, that no type reachable from &Engine admits mutation (audited: Arc counts, regex scratch cache), that Engine is Send+Sync, that setters are history-free and clones derived. This is the whole content of C03 (determinism, no engine mutation, schedule independence) as a code-shape fact; it is not an exploration of interleavings.")

claim("C18", "panic-capable-construct and allocation ledger over the loader's resolved call-graph closure (MIR Assert terminators, panicking std APIs, explicit capacities), mechanical guards + audited table",
      "Sound static decision of the no-panic and no-header-sized-allocation clauses of C18 for every byte sequence: every construct in the loader closure that can panic (bounds/overflow/division asserts, panic!/todo!/unwrap/expect, indexing and range slicing, length-precondition APIs, generic integer arithmetic) or allocate by an explicit size is mechanically discharged, matched to an audited entry with a shape check, or reported. Termination is not decided. Genuine defect sites are listed in known_findings.txt until repaired.")

claim("C20", "abstract interpretation of each setter's store into a clamp domain (max/min/clamp with constants) + write-set and return-value def-use rules over rustc MIR",
      "Sound static decision for every finite argument: each range-limited setter stores exactly the documented clamp of its argument into its own field (and the indexed element), unrestricted setters store the identity, getters return that field, Condition::default / load_model give the stated defaults, load_model's write set excludes user-level settings and Engine::load applies no setter. The clamp domain is exact, so this is the full statement of C20, not a sample of arguments.")
claim("C16", "exact rational polynomial normal forms (log-linear slope vs ln10/20, inverse getter) + field-sensitive forward taint with closure bodies from every read of the vocoder's volume + exhaustive output-store rule, over rustc MIR",
      "Sound static decision that set/get volume are an inverse dB pair with slope ln10/20, that every store into the output buffer (both filter families) is (volume-independent value) x volume, and that volume reaches no other store, call or branch in the vocoder; hence every sample scales by 10^(v/20) and nothing else changes.")

claim("C19", "construct-set analysis + CFG dominance of Ok-returns and stores by normalised success edges of the validating calls (check-before-assign, looking through a local validating helper) + must-reach / unskippable path rules on the metadata comparisons, over rustc MIR",
      "Sound static decision that VoiceSet/Weights can only be built by their validating constructors, that VoiceSet::new rejects empty lists and any metadata mismatch (global, stream count, per-stream; derived PartialEq): the failing outcome of each comparison alone ends in MetadataError and no iteration can get around a comparison, that Weights::new accepts only sums within 1e-6 of 1, and that each weight setter's single store is dominated by the success edges of both the sum and the length check - so a rejected update executes no store, for every history of updates.")

claim("C02", "write-set, dominance/post-dominance and effect-freedom rules on the step function's CFG + exact polynomial identities on the batch loop's buffer size and slice offset + parameter-role inference, over rustc MIR",
      "Sound static decision that the frame cursor advances exactly once per synthesized frame, that the exhausted path returns 0 and has no effect, that the three stream arguments use the one cursor value in the right roles, that the batch is a loop of steps whose chunks tile the buffer exactly (o(s)=0, o(k+1)-o(k)=f, B=o(L)), and that all cross-frame state is owned by the generator. These imply chunk concatenation = one-shot output and finish = remaining suffix for every call history and buffer size.")

claim("C08", "def-use normal forms (clamp domain over the rounded model value, exact polynomials) + dominating-guard rules + natural-loop exit and update-pairing analysis, over rustc MIR",
      "Sound static decision of the clauses from which the speaking-rate law follows: per-state duration = cast(max(round(mean+rho*vari),1)); create() uses rho=0 unless speed != 1; target = cast(max(round(sum/speed),1)); target <= states gives all ones; the greedy loop exits only on target == sum, starts from the element sum, changes one element and the sum by the same +-1 with the sign of target-sum, and never decrements a 1-frame state; condition.speed is what create() receives. Total = max(round(F1/s), states) and every state >= 1 follow arithmetically.")

claim("C09", "exact polynomial forms of the time scaling and group target + store/guard pairing of the inheritance rules + a crate-wide computed-value-is-used rule over the synthesis closure + dispatch guards, over rustc MIR",
      "Sound static decision of the structural clauses of C09: times are scaled by sampling_rate/(fperiod*1e7) with start/end from tokens 1/2 and the right argument roles; the two inheritance stores carry the stated sign guards; each known end fits parameters[next_state..state+nstate] to end - frames_so_far with the loop-carried updates on the right paths; no duration estimate in the synthesis closure is computed and dropped (the fallback for trailing untimed labels is appended); the alignment flag dispatches to the aligned path. Not decided: the full loop invariant and fractional-frame rounding.")

claim("C01", "polynomial/structural def-use forms (buffer size, frame expansion), single-definition sharing of the duration vector, clamp-domain floor, control-dependence of stream-2 accesses, explicit-panic ledger over the synthesis call-graph closure with mechanical guards + audited table (shape AND required dominating guards re-checked), band-matrix shape agreement, float-division-by-count ledger with local / call-site guards, over rustc MIR",
      "Sound static decision of: samples = (frames - cursor) x fperiod with a fresh cursor of 0; one row per frame, frames = per-state flags expanded by the one shared duration vector; every value entering a duration vector >= 1; every label contributes states 2..2+nstate; every constant-stream-2 access is under num_streams > 2; no explicit panic construct (panic!/todo!/unwrap/expect/range slicing/integer division/precondition APIs) in the synthesis closure is unaudited; the MLPG band matrix has `length` rows of `width` entries; no f64 division by an integer count (frame / voice / eligible-frame counts) lacks a proof that the count is non-zero (the 0/0 part of `NaN never out of nothing`). NOT decided: finiteness of samples in general, bounds/overflow checks inside the numeric kernels (counted, not judged).")

claim("C17", "resolved delegation chain of the trait impls + read-set/control-dependence of the times field + taint from (sampling rate, frame period) + dominance/post-dominance pairing of pushes + panic ledger and `?`-propagation rules over the label reader, over rustc MIR",
      "Sound static decision that the four label input forms converge on one constructor with the same labels, that time stamps are read only under the alignment flag and cannot influence the parsed labels, that blank lines are the only silently skipped lines and every other line pushes exactly one label and one time pair or returns an error, and that no panic-capable construct in the reader is unaudited (fallible parses are propagated as LabelError -> EngineError). jlabel's own parser is a model entry in the quick tier and scanned in the thorough tier.")

claim("C15", "closed-form constant checks + write-set and polynomial/clamp normal form of the shift's single store + call-site uniqueness + access-path taint (non-interference) through the pipeline wiring incl. closures, over rustc MIR",
      "Sound static decision that the shift constant is ln2/12 and the clamp bounds ln20/ln20000, that the shift writes only the mean of the static log-F0 component as clamp(old + h*HALF_TONE, MIN, MAX), for every state (plain traversal, no filter or data-dependent guard: voicing is decided later against the configured threshold) and nothing for h = 0, that it is applied exactly once to stream 1 before MLPG, and that condition.additional_half_tone reaches only the lf0 trajectory (not durations, spectrum, LPF, vocoder, nor any branch).")
claim("C11", "normal form of the voicing predicate + index agreement and parameter->field roles at the three pipeline call sites + access-path taint for 6 sources (per-stream threshold and GV weight) + const-item identity of the no-data marker between writer and reader, over rustc MIR",
      "Sound static decision that a frame's voicing flag is `msd > threshold` (strict, hence antitone in the threshold), that each stream's MlpgAdjust receives the threshold/GV weight/model of its own index and lands in the SpeechGenerator parameter of that stream, that msd_threshold[k] and gv_weight[k] influence only stream k's trajectory, that unvoiced frames carry the NODATA const item which the vocoder maps to period 0 and period 0 selects noise, and that non-MSD streams get a sentinel above every threshold.")

claim("C10", "iterator typestate on the two cursors of the blending function + exact polynomial forms of every component store + callee/field identity of weight vectors and models, over rustc MIR",
      "Sound static decision that the blend is exactly sum_i w_i x_i over all voices for mean, variance and voicing weight (first pair consumed once, the rest zipped in order, no skipping adaptor, every component accumulated with its own weight), and that duration / stream / GV Gaussians use the duration / parameter / GV weight vector with the matching model of each voice. Vertex weights and identical voices follow. This code is never executed by the passing test suite.")

claim("C04", "resolved dataflow from tuple positions / header fields to aggregate fields + exact polynomial forms of index bases and record lengths + control dependence on string-literal comparisons + derive key-table check, over rustc MIR",
      "Sound static decision of every layout convention between the voice-file reader and its consumers: header field -> metadata field (same name; serde keys = upper-case field names), node-line token -> yes/no child -> tree walk direction, tree index +2/-2 and 1-based PDF ids, the mean|variance|msd split and the three PDF record lengths, little-endian f32 widened exactly to f64, option key -> condition field, and fast-matcher-then-regex wiring. NOT decided: the wildcard semantics inside the third-party jlabel-question crate and window text -> float parsing.")

claim("C14", "dominating-guard (no-effect) rule + exact polynomial forms of the coefficient updates and conversion recurrences + dominance ordering of the energy measurements + a polynomial identity computed by the checker + recurrence recognition of what the energy measurement computes (frequency transform fed from the highest order down, cepstrum -> impulse response, sum of squares) + parameter plumbing/taint of beta, over rustc MIR",
      "Sound static decision of the structural clauses of C14: the postfilter has no effect for beta <= 0 or order <= 2 (both filter families); b1 <- b1 - beta*alpha*b2, b_k <- (1+beta) b_k for k >= 2, b0 <- b0 + ln(e1/e2)/2 with e1/e2 measured before/after; with c_i = b_i + alpha b_{i+1} these give c1 unchanged and c_k scaled by 1+beta (identity checked algebraically); b1 is compensated before b2 is scaled; the compensated energy b2en is sum ir^2 with ir = c2ir(freqt(b2mc(b, alpha), N-1, -alpha), N), freqt being the frequency-transformation recursion consumed from the highest input order down on a zero-initialised buffer and c2ir h[n] = (sum k c[k] h[n-k])/n (the ascending input order of the pinned tree was a genuine defect, repaired); condition.beta is what both postfilters receive and reaches nothing else. NOT decided: that the 576-tap truncation and the Pade approximation of the synthesis filter keep the realised energy within 1 %.")

claim("C07", "closed-form constants + per-branch store signatures with normalised guards and dominance order + SIBLINGS comparison of the two cloned branches + polynomial forms of the tap updates + event-sequence comparison of the two filter families, over rustc MIR",
      "Sound static decision of the structural clauses of C07: F0 limits ln20/ln20000 and period = rate/exp(clamp(lf0)); the pitch accumulator (counter += 1; on counter >= T0: counter -= T0, pulse sqrt(T0); linear glide per sample; start/end semantics) in BOTH the ring-buffer and the never-tested no-LPF branch, which are compared with each other on every run; the mixed-excitation taps noise*(delta-h) + pulse*h; identical excitation event sequences for the MLSA and LSP families. NOT decided: noise statistics.")

claim("C05", "truth table of the masking decision read off the switchInt chain (all assignments of its comparison atoms) + structural identity of the expansion/filter pipelines + const-item fill + recurrence recognition: the band LDL^T factorisation, both substitutions and the assembly of the normal equations as index polynomials over symbolised loop variables / iterator items (bounds, nesting, order), over rustc MIR",
      "Sound static decision of the second sentence of C05 and of the algorithmic shape behind the first: a dynamic-window observation's precision is zeroed exactly when its window span touches an unvoiced frame or the utterance edge ((left < left_width or right < right_width) and window != static), frames outside the voicing mask carry the no-data constant, and the mask and every per-window parameter sequence are expanded by the same durations and filtered by the same mask (frame -> state assignment shared); solve() is exactly the band LDL^T algorithm (A[t][i] -= A[t-k][k] A[t-k][i+k] A[t-k][0] over k in 1..min(width-i, t+1), normalisation after both sums, forward g[t] = b[t] - sum A[t-k][k] g[t-k], backward c[t] = g[t]/A[t][0] - sum A[t][k] c[t+k], factorise before substituting) - wrong operands here only show for windows wider than the bundled ones; the assembly is wum[t] += w_i(o) ivar_i[t-pos(o)] mean_i[t-pos(o)] and wuw[t][idx(o')-idx(o)] += w_i(o) ivar_i[t-pos(o)] w_i(o') over every frame, window and tap under 0 <= t-pos(o) < length and t+j < length, with the tap iterator / WindowIndex semantics it relies on; create() cannot return before the column loop (no unfilled rows). NOT decided: the rounding accuracy of the result.")

claim("C12", "polynomial form of the GV target + taint from the weight inside the solver entry (GV-less path independent) + read-set of the weight + no-effect rule for the zero-eligible-frames return + structural identity of the switch pipeline, over rustc MIR",
      "Sound static decision of the structural clauses of C12: the GV target is gv_mean[vector_index] x gv_weight; a stream without GV returns the plain ML solution independently of the weight, and the weight is read nowhere else; with no eligible frame the trajectory is returned unmodified; the statistics compared with the target (calc_gv) are sums over exactly the switched-on frames divided by their count; the per-state switch is !gv_off_context.test(label), expanded by the same durations and filtered by the same mask as the parameters, and both the variance rescaling and the GV gradient term touch switched-on frames only. NOT decided: the 20 % variance law and monotonicity (numerical).")


# clauses added in later rounds (DESIGN.md §9.2), appended to the claim texts above
ADDENDA = {
    "C01": "Added: create_with_alignment has no unsigned subtraction that could wrap (the frame budget is a float difference); every inverse variance with_ivar can return is bounded (a constant <= 1e50 or 1/x behind |x| >= K) so the MLPG sums cannot overflow to inf/NaN out of a zero variance; a str / String range slice is never discharged by a length argument.",
    "C02": "Added (R7): the output buffer is write-only - no statement of generate_step / Vocoder::synthesize or their closures loads an element of it, so a chunk does not depend on what the caller's buffer held. Added (R8): SpeechGenerator::new and Vocoder::new both receive condition.fperiod (step stride = samples written per frame).",
    "C05": "Added: every call of substitutions sits behind a factorisation of the same receiver and no path of par() returns around the solver; past its last dominating test an accumulation of the assembly cannot be skipped (path clause).",
    "C09": "Added: the alignment flag alone decides between create_with_alignment and create(speed); the fallback estimate runs for exactly the last label when it has no end time; the inheritance loop of Labels::new covers every label from the first.",
    "C10": "Added: no branch of mul / mul_add_assign depends on the weight.",
    "C07": "Added: the ring buffer that selects the branch of Excitation::get has exactly nlpf elements; a fresh excitation starts with period, counter and increment 0.",
    "C08": "Added: set_speed stores max(f, 1e-6) - the speed reaching create() is the one the user set.",
    "C11": "Added (R8): set_msd_threshold stores clamp(f, 0, 1) on every path and get_msd_threshold returns that element.",
    "C12": "Added: MlpgAdjust::new keeps the stream's GV statistics unchanged, create() hands self.gv to par(), and with a GV model every return of par() is apply_gv's result.",
    "C13": "Added (R6, R7): the MGLSA section and its cascade; the generalised branch of Vocoder::synthesize (df call and arguments, gain b[0], linear interpolation, first-frame / end-of-frame values, b[i] *= gamma for i >= 1 on the first and on every frame); delayed inputs of lsp2lpc maintained as x2 <- x1 <- x. Added later: lsp2lpc tags its polynomial with the voice's alpha / gamma, is driven by a unit impulse from zero state and writes a[k-1] for k >= 1 only; gnorm / ignorm are the gain normalisations; gc2gc is the gamma-conversion recursion and mgc2mgc the chain gnorm - gc2gc - ignorm (the last two judged in the spellings the clause can read, otherwise recorded as not evaluated).",
    "C14": "Added: conversion stores may be conditional only if the buffer they start from is a copy of the input; the postfilter calls are unconditional in their branch (at most beta > 0); both conversion recurrences copy element len - 1 and cover 0..len-1.",
    "C15": "Added: the single call is unconditional (at most h != 0) and the half tone feeds nothing else in Engine::generator; set_additional_half_tone stores its argument unchanged (R6).",
    "C17": "Added (R6): every Ok of Labels::new has one time pair per label (negative = unknown pairs when no times are given); a text line without time stamps pushes a pair of strictly negative constants.",
    "C20": "Added: each setter's store is on every path to the return.",
    "C03": "Added (R9): no hidden condition state - every getter returns the field its setter writes verbatim, so conditions with equal getter values are equal; Engine has no non-public field. Added (R10): Condition::load_model writes the getter-less fields stage / use_log_gain on every successful path (found a genuine defect, repaired).",
    "C04": "Added: the regex fallback of Question::parse is reached from every error of the fast matcher (path clause); a header without GAMMA / LN_GAIN leaves stage 0 and linear gain (Condition::default).",
    "C18": "Added: a str / String range slice is never discharged by a length argument (char boundaries): only the full range is mechanical.",
}


def main():
    for pid_, add_ in ADDENDA.items():
        if pid_ in CHECKS:
            t_, x_, r_ = CHECKS[pid_]
            CHECKS[pid_] = (t_, x_ + " " + add_, r_)
    props = [json.loads(l) for l in open(os.path.join(VERIF, "properties.jsonl"))]
    ids = [p["id"] for p in props]
    checks = []
    for pid in ids:
        if pid not in CHECKS:
            continue
        tech, text, ref = CHECKS[pid]
        checks.append({
            "property_id": pid,
            "quick_cmd": "./check %s --tier quick" % pid,
            "thorough_cmd": "./check %s --tier thorough" % pid,
            "evidence_file": "/verif/evidence/%s.json" % pid,
            "replay_cmd_template": "./check %s --replay {path}" % pid,
            "engine": "jbv",
            "level_claimed": {"category": "other", "text": text, "design_ref": ref},
            "level_note": TRUST,
            "technique": tech,
        })
    na = []
    for pid in ids:
        if pid in CHECKS:
            continue
        reason = NOT_APPLICABLE.get(pid, "not yet decided by a static rule in this framework (work in progress); no check is registered for it")
        na.append({"property_id": pid, "reason": reason})
    m = {
        "version": 1,
        "setup_cmd": "cd /verif/driver && CARGO_NET_OFFLINE=true cargo +nightly build --offline && cd /verif && ./check --help >/dev/null",
        "hooks": {
            "guard": "jbonsai_verif",
            "enable": "none needed: the checks are static and build /repo unmodified with `cargo +nightly check --offline --lib` under the jbv-facts rustc wrapper (RUSTFLAGS=-Zmir-opt-level=0)",
            "baseline_off_cmd": "cd /repo && cargo test --workspace --no-fail-fast --offline",
            "source_commits": [],
            "add_only": True,
        },
        "engines": [
            {"name": "jbv-facts", "path": "/verif/driver", "serves_properties": sorted(CHECKS),
             "kind_free_text": "rustc_private driver exporting MIR (-Zmir-opt-level=0), resolved callees, types, evaluated constants, ADT/impl/static/unsafe facts, trait-solver answers as JSON"},
            {"name": "jbv", "path": "/verif/jbv", "serves_properties": sorted(CHECKS),
             "kind_free_text": "Python rule engine: call graph + effect classes (E2), def-use normal forms D-poly/D-clamp/D-bool (E3), CFG dominance/path rules (E4), taint/non-interference (E5), panic & allocation ledger (E6), type facts (E7)"},
        ],
        "checks": checks,
        "not_applicable": na,
        "notes": "Technique family: static analysis only. Every check rebuilds the fact base from /repo's current working tree (cache keyed by a hash of the tree) and decides clauses named in DESIGN.md §5; known findings in /verif/known_findings.txt.",
    }
    with open(os.path.join(VERIF, "MANIFEST.json"), "w") as f:
        json.dump(m, f, indent=1)
    print("MANIFEST.json: %d checks, %d not_applicable" % (len(checks), len(na)))


if __name__ == "__main__":
    main()
