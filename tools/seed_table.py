#!/usr/bin/env python3
"""Render the seeded-change table of DESIGN.md §9.5 from seeded/*/meta.json."""
import json
import os
import re

VERIF = os.path.dirname(os.path.dirname(os.path.abspath(__file__)))
sd = os.path.join(VERIF, "seeded")
print("| seed | property | what was changed | needs, to manifest | first run | rules that fire now | other checks that also fire |")
print("|---|---|---|---|---|---|---|")
for d in sorted(os.listdir(sd)):
    mp = os.path.join(sd, d, "meta.json")
    if not os.path.exists(mp):
        continue
    m = json.load(open(mp))
    pid = m["breaks_property"]
    fired = m.get("checks_fired", {})
    own = sorted({re.search(r"rule=(\S+)", v).group(1) for v in fired.get(pid, {}).get("violations", []) if re.search(r"rule=(\S+)", v)})
    others = sorted(k for k in fired if k != pid)
    first = m.get("first_run_caught")
    first_txt = "caught" if first else "**missed** → " + m.get("strengthened_rule", "?").split(":")[0].split("(")[0].strip()
    print("| %s | %s | %s | %s | %s | %s | %s |" % (d, pid, m.get("summary", "?"), m.get("needs", m.get("needs_to_manifest", "")), first_txt, ", ".join(own) or "—", ", ".join(others) or "—"))
