//! Positive controls for the zero-count rules: one deliberate instance of each forbidden
//! construct.  Every run of a check that relies on "no X in jbonsai" first confirms that the
//! same rule flags the X in this crate; if a control is not flagged the check fails closed.
#![allow(dead_code, static_mut_refs, unused)]

use std::cell::Cell;
use std::collections::HashMap;
use std::sync::atomic::{AtomicUsize, Ordering};

// C03-R1
pub static mut COUNTER: usize = 0;
pub static ATOMIC: AtomicUsize = AtomicUsize::new(0);
pub static TABLE: [f64; 2] = [1.0, 2.0]; // a Freeze immutable static: must NOT be flagged
thread_local! {
    pub static TLS: Cell<u32> = Cell::new(0);
}

// C03-R2 / R3
pub struct HasCell {
    pub hits: Cell<u32>,
}
pub struct NotSend {
    pub p: *mut u8,
}
pub struct Plain {
    pub x: Vec<f64>,
}

// C03-R4
pub fn uses_unsafe(p: &mut [f64]) -> f64 {
    unsafe { *p.get_unchecked(0) }
}

// C03-R5
pub fn nondeterministic() -> u64 {
    let t = std::time::Instant::now();
    let mut m: HashMap<u32, u32> = HashMap::new();
    m.insert(1, 2);
    let mut s = 0u64;
    for (k, v) in m.iter() {
        s += (*k + *v) as u64;
    }
    let a = &s as *const u64 as usize;
    ATOMIC.fetch_add(1, Ordering::SeqCst);
    TLS.with(|c| c.set(c.get() + 1));
    unsafe {
        COUNTER += 1;
    }
    s + a as u64 + t.elapsed().as_nanos() as u64
}
pub fn unmodelled_callee() -> String {
    std::env::var("HOME").unwrap_or_default()
}

// C03-R7
pub struct Settings {
    pub volume: f64,
    pub speed: f64,
}
impl Settings {
    pub fn set_volume_accumulating(&mut self, f: f64) {
        self.volume *= f;
    }
    pub fn set_speed_two_fields(&mut self, f: f64) {
        self.speed = f;
        self.volume = f;
    }
    pub fn set_speed_ok(&mut self, f: f64) {
        self.speed = f.max(1e-6);
    }
}

// E6 controls (C18 / C17-R5 / C01-R6)
pub fn panics(v: &[u8], n: usize, s: &str) -> usize {
    let a = v[n] as usize; // bounds check
    let b = &v[n..]; // range slicing
    let c = s.parse::<usize>().unwrap(); // unwrap
    let d = v.first().expect("nonempty"); // expect
    let e = n * a + c; // overflow
    let f = a / n; // division by zero
    if n == 3 {
        todo!("not yet");
    }
    if n == 4 {
        panic!("explicit");
    }
    let g = vec![0u8; n]; // input-sized allocation
    let h: Vec<u8> = Vec::with_capacity(n);
    let i = &s[1..]; // str slicing
    e + f + b.len() + *d as usize + g.len() + h.capacity() + i.len()
}
pub fn guarded(v: &[u8], n: usize) -> usize {
    let mut s = 0;
    for i in 0..v.len() {
        s += v[i] as usize; // discharged: i from 0..len
    }
    if let Some(x) = v.get(n) {
        s += *x as usize;
    }
    s
}
