//! Minimal JSON value + serializer (the driver has zero cargo dependencies).

use std::fmt::Write;

#[derive(Clone, Debug)]
pub enum J {
    Null,
    Bool(bool),
    Int(i128),
    Str(String),
    Arr(Vec<J>),
    Obj(Vec<(&'static str, J)>),
}

pub fn s<T: Into<String>>(x: T) -> J {
    J::Str(x.into())
}
pub fn i<T: TryInto<i128>>(x: T) -> J {
    match x.try_into() {
        Ok(v) => J::Int(v),
        Err(_) => J::Null,
    }
}
pub fn b(x: bool) -> J {
    J::Bool(x)
}
pub fn arr<I: IntoIterator<Item = J>>(it: I) -> J {
    J::Arr(it.into_iter().collect())
}
pub fn opt(x: Option<J>) -> J {
    x.unwrap_or(J::Null)
}

#[macro_export]
macro_rules! obj {
    ($($k:literal : $v:expr),* $(,)?) => {
        $crate::json::J::Obj(vec![$(($k, $v)),*])
    };
}

fn esc(out: &mut String, st: &str) {
    out.push('"');
    for c in st.chars() {
        match c {
            '"' => out.push_str("\\\""),
            '\\' => out.push_str("\\\\"),
            '\n' => out.push_str("\\n"),
            '\r' => out.push_str("\\r"),
            '\t' => out.push_str("\\t"),
            c if (c as u32) < 0x20 => {
                let _ = write!(out, "\\u{:04x}", c as u32);
            }
            c => out.push(c),
        }
    }
    out.push('"');
}

impl J {
    pub fn write(&self, out: &mut String) {
        match self {
            J::Null => out.push_str("null"),
            J::Bool(v) => out.push_str(if *v { "true" } else { "false" }),
            J::Int(v) => {
                // JSON numbers beyond 2^53 lose precision in some readers; Python keeps
                // arbitrary precision, which is the only consumer.
                let _ = write!(out, "{}", v);
            }
            J::Str(v) => esc(out, v),
            J::Arr(v) => {
                out.push('[');
                for (k, x) in v.iter().enumerate() {
                    if k > 0 {
                        out.push(',');
                    }
                    x.write(out);
                }
                out.push(']');
            }
            J::Obj(v) => {
                out.push('{');
                for (k, (key, x)) in v.iter().enumerate() {
                    if k > 0 {
                        out.push(',');
                    }
                    esc(out, key);
                    out.push(':');
                    x.write(out);
                }
                out.push('}');
            }
        }
    }
}
