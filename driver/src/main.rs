//! jbv-facts: a rustc_private driver that exports the type-checked program of the crate
//! being compiled (MIR at -Zmir-opt-level=0, resolved callees, types, evaluated constants,
//! ADTs, impls, statics, unsafe usage, type-level facts) as one JSON "facts" document.
//!
//! It is run as RUSTC_WORKSPACE_WRAPPER (or through a RUSTC_WRAPPER script) under
//! `cargo +nightly check`; argv[1] is the path of the real rustc and is dropped.
//!
//! Environment:
//!   JBV_OUT     directory to write `<crate>-<pid>.json` into (required to export)
//!   JBV_CRATES  comma list of crate names to export (default: jbonsai); `*` = every crate
//!   JBV_NONCE   copied into the document so the caller can prove freshness

#![feature(rustc_private)]
#![allow(clippy::all)]

extern crate rustc_abi;
extern crate rustc_ast;
extern crate rustc_data_structures;
extern crate rustc_driver;
extern crate rustc_hir;
extern crate rustc_infer;
extern crate rustc_interface;
extern crate rustc_middle;
extern crate rustc_span;
extern crate rustc_trait_selection;

mod json;

use json::{arr, b, i, opt, s, J};
use rustc_hir::def::DefKind;
use rustc_hir::def_id::{DefId, LocalDefId};
use rustc_middle::mir::{self, *};
use rustc_middle::ty::{self, Instance, Ty, TyCtxt, TypeVisitableExt, TypingEnv};
use rustc_span::Span;
use std::collections::{BTreeMap, HashSet};

struct Cb;

impl rustc_driver::Callbacks for Cb {
    fn after_analysis<'tcx>(
        &mut self,
        _compiler: &rustc_interface::interface::Compiler,
        tcx: TyCtxt<'tcx>,
    ) -> rustc_driver::Compilation {
        let out = match std::env::var("JBV_OUT") {
            Ok(o) => o,
            Err(_) => return rustc_driver::Compilation::Continue,
        };
        let krate = tcx.crate_name(rustc_hir::def_id::LOCAL_CRATE).to_string();
        let wanted = std::env::var("JBV_CRATES").unwrap_or_else(|_| "jbonsai".to_string());
        if wanted != "*" && !wanted.split(',').any(|c| c == krate) {
            return rustc_driver::Compilation::Continue;
        }
        let doc = rustc_middle::ty::print::with_no_trimmed_paths!(export(tcx, &krate));
        let mut text = String::with_capacity(1 << 24);
        doc.write(&mut text);
        let path = format!("{}/{}-{}.json", out, krate, std::process::id());
        let tmp = format!("{}.tmp", path);
        std::fs::write(&tmp, text).expect("jbv-facts: cannot write facts");
        std::fs::rename(&tmp, &path).expect("jbv-facts: cannot rename facts");
        rustc_driver::Compilation::Continue
    }
}

fn main() {
    let mut args: Vec<String> = std::env::args().collect();
    // wrapper mode: argv[1] is the real rustc
    if args.len() > 1 && (args[1].ends_with("rustc") || args[1].contains("/rustc")) {
        args.remove(1);
    }
    rustc_driver::run_compiler(&args, &mut Cb);
}

// ------------------------------------------------------------------------------------------

struct Cx<'tcx> {
    tcx: TyCtxt<'tcx>,
}

fn span_j(tcx: TyCtxt<'_>, sp: Span) -> J {
    let sm = tcx.sess.source_map();
    let exp = sp.from_expansion();
    let mac = if exp {
        let d = sp.ctxt().outer_expn_data();
        match d.kind {
            rustc_span::ExpnKind::Macro(_, name) => Some(name.to_string()),
            rustc_span::ExpnKind::Desugaring(k) => Some(format!("desugar:{:?}", k)),
            rustc_span::ExpnKind::AstPass(k) => Some(format!("astpass:{:?}", k)),
            _ => None,
        }
    } else {
        None
    };
    // the outermost call site in user code
    let user = sp.source_callsite();
    if user.is_dummy() {
        return obj! {"file": J::Null, "line": J::Null, "exp": b(exp), "mac": opt(mac.map(s))};
    }
    let lo = sm.lookup_char_pos(user.lo());
    let hi = sm.lookup_char_pos(user.hi());
    let file = match &lo.file.name {
        rustc_span::FileName::Real(r) => match r.local_path() {
            Some(p) => p.to_string_lossy().to_string(),
            None => format!("{:?}", r),
        },
        other => format!("{:?}", other),
    };
    obj! {
        "file": s(file), "line": i(lo.line as i64), "col": i(lo.col.0 as i64),
        "line_hi": i(hi.line as i64), "exp": b(exp), "mac": opt(mac.map(s))
    }
}

fn def_path(tcx: TyCtxt<'_>, did: DefId) -> String {
    let v = tcx.def_path_str(did);
    // Visible paths of foreign items can run through `extern crate serde as _serde` inside a
    // derive's anonymous const (`model::mean_vari::_::_serde::Deserialize`); use the canonical
    // path for those.
    if !did.is_local() && (v.contains("::_::") || v.starts_with("_::")) {
        return rustc_middle::ty::print::with_no_visible_paths!(tcx.def_path_str(did));
    }
    v
}

fn krate_of(tcx: TyCtxt<'_>, did: DefId) -> String {
    tcx.crate_name(did.krate).to_string()
}

impl<'tcx> Cx<'tcx> {
    fn ty_j(&self, ty: Ty<'tcx>) -> J {
        s(ty.to_string())
    }

    /// Structured description of a type (one level), used for operands/locals where rules
    /// need to know "is this a closure / fn item / adt, and which".
    fn ty_info(&self, ty: Ty<'tcx>) -> J {
        let tcx = self.tcx;
        match ty.kind() {
            ty::Closure(did, _) => obj! {"k": s("closure"), "def": s(def_path(tcx, *did))},
            ty::FnDef(did, args) => obj! {
                "k": s("fndef"), "def": s(def_path(tcx, *did)),
                "args": arr(args.iter().map(|a| s(a.to_string())))
            },
            ty::Adt(adt, args) => obj! {
                "k": s("adt"), "def": s(def_path(tcx, adt.did())),
                "args": arr(args.iter().map(|a| s(a.to_string())))
            },
            ty::Ref(_, inner, m) => obj! {
                "k": s("ref"), "mut": b(m.is_mut()), "to": self.ty_info(*inner)
            },
            ty::RawPtr(inner, m) => obj! {
                "k": s("rawptr"), "mut": b(m.is_mut()), "to": self.ty_info(*inner)
            },
            ty::Slice(inner) => obj! {"k": s("slice"), "of": self.ty_info(*inner)},
            ty::Array(inner, _) => obj! {"k": s("array"), "of": self.ty_info(*inner)},
            ty::Tuple(ts) => obj! {"k": s("tuple"), "n": i(ts.len() as i64)},
            ty::Param(p) => obj! {"k": s("param"), "name": s(p.name.to_string())},
            ty::FnPtr(..) => obj! {"k": s("fnptr")},
            ty::Dynamic(..) => obj! {"k": s("dyn")},
            ty::Alias(..) => obj! {"k": s("alias"), "s": s(ty.to_string())},
            _ => obj! {"k": s("prim"), "s": s(ty.to_string())},
        }
    }

    fn place_j(&self, body: &Body<'tcx>, p: &Place<'tcx>) -> J {
        let tcx = self.tcx;
        let mut proj = Vec::new();
        let mut cur = PlaceTy::from_ty(body.local_decls[p.local].ty);
        for elem in p.projection.iter() {
            let e = match elem {
                ProjectionElem::Deref => obj! {"k": s("deref")},
                ProjectionElem::Field(f, fty) => {
                    // name of the field if the base is an ADT
                    let name = match cur.ty.kind() {
                        ty::Adt(adt, _) => {
                            let v = match cur.variant_index {
                                Some(v) => adt.variant(v),
                                None => {
                                    if adt.is_enum() {
                                        // field of enum without downcast: should not happen
                                        adt.variant(rustc_abi::VariantIdx::from_u32(0))
                                    } else {
                                        adt.non_enum_variant()
                                    }
                                }
                            };
                            v.fields.get(f).map(|fd| fd.name.to_string())
                        }
                        ty::Closure(did, _) => {
                            // captured variable name
                            let caps = tcx.closure_captures(did.expect_local());
                            caps.get(f.as_usize()).map(|c| c.to_string(tcx))
                        }
                        _ => None,
                    };
                    let base = match cur.ty.kind() {
                        ty::Adt(adt, _) => Some(def_path(tcx, adt.did())),
                        ty::Closure(did, _) => Some(def_path(tcx, *did)),
                        _ => None,
                    };
                    obj! {"k": s("field"), "i": i(f.as_u32()), "name": opt(name.map(s)),
                    "of": opt(base.map(s)), "ty": self.ty_j(fty)}
                }
                ProjectionElem::Index(l) => obj! {"k": s("index"), "local": i(l.as_u32())},
                ProjectionElem::ConstantIndex { offset, min_length, from_end } => obj! {
                    "k": s("constindex"), "offset": i(offset), "min_length": i(min_length),
                    "from_end": b(from_end)
                },
                ProjectionElem::Subslice { from, to, from_end } => obj! {
                    "k": s("subslice"), "from": i(from), "to": i(to), "from_end": b(from_end)
                },
                ProjectionElem::Downcast(name, v) => obj! {
                    "k": s("downcast"), "variant": opt(name.map(|n| s(n.to_string()))),
                    "idx": i(v.as_u32())
                },
                ProjectionElem::OpaqueCast(t) => obj! {"k": s("opaquecast"), "ty": self.ty_j(t)},
                ProjectionElem::UnwrapUnsafeBinder(t) => {
                    obj! {"k": s("unwrapbinder"), "ty": self.ty_j(t)}
                }
            };
            proj.push(e);
            cur = cur.projection_ty(tcx, elem);
        }
        obj! {"local": i(p.local.as_u32()), "proj": J::Arr(proj)}
    }

    fn const_j(&self, owner: DefId, c: &ConstOperand<'tcx>) -> J {
        let tcx = self.tcx;
        let ty = c.const_.ty();
        let mut fields: Vec<(&'static str, J)> = vec![("k", s("const")), ("ty", self.ty_j(ty))];
        if let ty::FnDef(did, args) = ty.kind() {
            fields.push(("fn", s(def_path(tcx, *did))));
            fields.push(("fn_krate", s(krate_of(tcx, *did))));
            fields.push(("fn_args", arr(args.iter().map(|a| s(a.to_string())))));
            return J::Obj(fields);
        }
        if let mir::Const::Unevaluated(uv, _) = c.const_ {
            fields.push(("def", s(def_path(tcx, uv.def))));
            if let Some(p) = uv.promoted {
                fields.push(("promoted", i(p.as_u32())));
            }
        }
        let env = TypingEnv::post_analysis(tcx, owner);
        // only evaluate when not generic
        let generic = match c.const_ {
            mir::Const::Unevaluated(uv, _) => uv.args.iter().any(|a| a.has_param()),
            mir::Const::Ty(_, ct) => ct.has_param(),
            mir::Const::Val(..) => false,
        } || ty.has_param();
        if generic {
            fields.push(("generic", b(true)));
            if let mir::Const::Ty(_, ct) = c.const_ {
                if let ty::ConstKind::Param(pc) = ct.kind() {
                    fields.push(("param", s(pc.name.to_string())));
                }
            }
            return J::Obj(fields);
        }
        if let mir::Const::Unevaluated(uv, _) = c.const_ {
            if uv.promoted.is_some() {
                // promoteds are exported as bodies; do not evaluate here
                return J::Obj(fields);
            }
        }
        match c.const_.eval(tcx, env, c.span) {
            Ok(val) => self.constvalue_fields(&mut fields, val, ty),
            Err(_) => fields.push(("eval_err", b(true))),
        }
        J::Obj(fields)
    }

    fn constvalue_fields(
        &self,
        fields: &mut Vec<(&'static str, J)>,
        val: ConstValue,
        ty: Ty<'tcx>,
    ) {
        let tcx = self.tcx;
        match val {
            ConstValue::Scalar(sc) => {
                if let Ok(si) = sc.try_to_scalar_int() {
                    let size = si.size();
                    let bits = si.to_bits(size);
                    match ty.kind() {
                        ty::Float(ty::FloatTy::F64) => {
                            let f = f64::from_bits(bits as u64);
                            fields.push(("f64", s(format!("{:?}", f))));
                            fields.push(("bits", s(format!("{:016x}", bits as u64))));
                        }
                        ty::Float(ty::FloatTy::F32) => {
                            let f = f32::from_bits(bits as u32);
                            fields.push(("f32", s(format!("{:?}", f))));
                        }
                        ty::Int(_) => {
                            let v = size.sign_extend(bits) as i128;
                            fields.push(("int", J::Int(v)));
                        }
                        ty::Bool => fields.push(("bool", b(bits != 0))),
                        ty::Char => {
                            fields.push(("int", J::Int(bits as i128)));
                            if let Some(ch) = char::from_u32(bits as u32) {
                                fields.push(("char", s(ch.to_string())));
                            }
                        }
                        _ => {
                            if bits <= i128::MAX as u128 {
                                fields.push(("int", J::Int(bits as i128)));
                            } else {
                                fields.push(("uint_str", s(bits.to_string())));
                            }
                        }
                    }
                } else {
                    fields.push(("ptr", b(true)));
                    if let rustc_middle::mir::interpret::Scalar::Ptr(ptr, _) = sc {
                        let aid = ptr.provenance.alloc_id();
                        match tcx.try_get_global_alloc(aid) {
                            Some(rustc_middle::mir::interpret::GlobalAlloc::Static(did)) => {
                                fields.push(("static", s(def_path(tcx, did))));
                                fields.push(("static_krate", s(krate_of(tcx, did))));
                            }
                            Some(rustc_middle::mir::interpret::GlobalAlloc::Function { instance }) => {
                                fields.push(("fnptr", s(def_path(tcx, instance.def_id()))));
                            }
                            _ => {}
                        }
                    }
                }
            }
            ConstValue::ZeroSized => fields.push(("zst", b(true))),
            ConstValue::Slice { .. } => {
                if let Some(bytes) = val.try_get_slice_bytes_for_diagnostics(tcx) {
                    fields.push(("str", s(String::from_utf8_lossy(bytes).to_string())));
                }
            }
            ConstValue::Indirect { .. } => {
                // &str behind an indirection, or an aggregate
                let is_str_ref = matches!(ty.kind(), ty::Ref(_, t, _) if t.is_str());
                if is_str_ref {
                    if let Some(bytes) = val.try_get_slice_bytes_for_diagnostics(tcx) {
                        fields.push(("str", s(String::from_utf8_lossy(bytes).to_string())));
                    }
                } else {
                    fields.push(("indirect", b(true)));
                    // a table of f64 (e.g. the Pade coefficients): export the elements
                    let all_f64 = match ty.kind() {
                        ty::Array(et, _) => matches!(et.kind(), ty::Float(ty::FloatTy::F64)),
                        ty::Tuple(ts) => !ts.is_empty() && ts.iter().all(|t| matches!(t.kind(), ty::Float(ty::FloatTy::F64))),
                        _ => false,
                    };
                    if let ConstValue::Indirect { alloc_id, offset } = val {
                        if all_f64 {
                            if let Some(rustc_middle::mir::interpret::GlobalAlloc::Memory(mem)) =
                                tcx.try_get_global_alloc(alloc_id)
                            {
                                let a = mem.inner();
                                let start = offset.bytes() as usize;
                                let bytes = a.inspect_with_uninit_and_ptr_outside_interpreter(start..a.len());
                                let vals: Vec<J> = bytes
                                    .chunks_exact(8)
                                    .map(|c| {
                                        let mut w = [0u8; 8];
                                        w.copy_from_slice(c);
                                        s(format!("{:?}", f64::from_le_bytes(w)))
                                    })
                                    .collect();
                                fields.push(("f64_array", J::Arr(vals)));
                            }
                        }
                    }
                }
            }
        }
    }

    fn operand_j(&self, owner: DefId, body: &Body<'tcx>, op: &Operand<'tcx>) -> J {
        match op {
            Operand::Copy(p) => obj! {"k": s("copy"), "place": self.place_j(body, p)},
            Operand::Move(p) => obj! {"k": s("move"), "place": self.place_j(body, p)},
            Operand::Constant(c) => self.const_j(owner, c),
            #[allow(unreachable_patterns)]
            _ => obj! {"k": s("other"), "dbg": s(format!("{:?}", op))},
        }
    }

    fn rvalue_j(&self, owner: DefId, body: &Body<'tcx>, rv: &Rvalue<'tcx>) -> J {
        let tcx = self.tcx;
        match rv {
            Rvalue::Use(op, ..) => obj! {"k": s("use"), "op": self.operand_j(owner, body, op)},
            Rvalue::Repeat(op, n) => obj! {
                "k": s("repeat"), "op": self.operand_j(owner, body, op), "count": s(n.to_string())
            },
            Rvalue::Ref(_, bk, p) => obj! {
                "k": s("ref"),
                "mut": b(matches!(bk, BorrowKind::Mut { .. })),
                "bk": s(format!("{:?}", bk)),
                "place": self.place_j(body, p)
            },
            Rvalue::ThreadLocalRef(did) => obj! {"k": s("tlsref"), "def": s(def_path(tcx, *did))},
            Rvalue::RawPtr(kind, p) => obj! {
                "k": s("rawptr"), "kind": s(format!("{:?}", kind)), "place": self.place_j(body, p)
            },
            Rvalue::Cast(kind, op, ty) => obj! {
                "k": s("cast"), "kind": s(format!("{:?}", kind)),
                "op": self.operand_j(owner, body, op), "ty": self.ty_j(*ty),
                "from_ty": self.ty_j(op.ty(body, tcx))
            },
            Rvalue::BinaryOp(op, ab) => obj! {
                "k": s("binop"), "op": s(format!("{:?}", op)),
                "a": self.operand_j(owner, body, &ab.0), "b": self.operand_j(owner, body, &ab.1),
                "ty": self.ty_j(ab.0.ty(body, tcx))
            },
            Rvalue::UnaryOp(op, a) => obj! {
                "k": s("unop"), "op": s(format!("{:?}", op)),
                "a": self.operand_j(owner, body, a), "ty": self.ty_j(a.ty(body, tcx))
            },
            Rvalue::Discriminant(p) => obj! {
                "k": s("discriminant"), "place": self.place_j(body, p),
                "of": self.ty_j(p.ty(body, tcx).ty)
            },
            Rvalue::Aggregate(kind, ops) => {
                let kj = match &**kind {
                    AggregateKind::Array(t) => obj! {"k": s("array"), "elem": self.ty_j(*t)},
                    AggregateKind::Tuple => obj! {"k": s("tuple")},
                    AggregateKind::Adt(did, vidx, args, _, _) => {
                        let adt = tcx.adt_def(*did);
                        let v = adt.variant(*vidx);
                        obj! {
                            "k": s("adt"), "def": s(def_path(tcx, *did)),
                            "krate": s(krate_of(tcx, *did)),
                            "variant": s(v.name.to_string()), "vidx": i(vidx.as_u32()),
                            "fields": arr(v.fields.iter().map(|f| s(f.name.to_string()))),
                            "args": arr(args.iter().map(|a| s(a.to_string())))
                        }
                    }
                    AggregateKind::Closure(did, _) => {
                        let caps = tcx.closure_captures(did.expect_local());
                        obj! {
                            "k": s("closure"), "def": s(def_path(tcx, *did)),
                            "captures": arr(caps.iter().map(|c| obj!{
                                "name": s(c.to_string(tcx)),
                                "by_ref": b(c.is_by_ref()),
                                "mutable": b(c.mutability.is_mut())
                            }))
                        }
                    }
                    AggregateKind::Coroutine(did, _) => {
                        obj! {"k": s("coroutine"), "def": s(def_path(tcx, *did))}
                    }
                    AggregateKind::CoroutineClosure(did, _) => {
                        obj! {"k": s("coroutineclosure"), "def": s(def_path(tcx, *did))}
                    }
                    AggregateKind::RawPtr(t, _) => obj! {"k": s("rawptr"), "ty": self.ty_j(*t)},
                };
                obj! {
                    "k": s("aggregate"), "kind": kj,
                    "ops": arr(ops.iter().map(|o| self.operand_j(owner, body, o)))
                }
            }
            Rvalue::CopyForDeref(p) => obj! {"k": s("copyforderef"), "place": self.place_j(body, p)},
            Rvalue::WrapUnsafeBinder(op, ty) => obj! {
                "k": s("wrapbinder"), "op": self.operand_j(owner, body, op), "ty": self.ty_j(*ty)
            },
            #[allow(unreachable_patterns)]
            _ => obj! {"k": s("other"), "dbg": s(format!("{:?}", rv))},
        }
    }

    fn callee_j(&self, owner: DefId, body: &Body<'tcx>, func: &Operand<'tcx>) -> J {
        let tcx = self.tcx;
        let fty = func.ty(body, tcx);
        match fty.kind() {
            ty::FnDef(did, args) => {
                let mut f: Vec<(&'static str, J)> = vec![
                    ("k", s("fndef")),
                    ("def", s(def_path(tcx, *did))),
                    ("krate", s(krate_of(tcx, *did))),
                    ("args", arr(args.iter().map(|a| s(a.to_string())))),
                    ("arg_info", arr(args.iter().map(|a| match a.as_type() {
                        Some(t) => self.ty_info(t),
                        None => J::Null,
                    }))),
                    ("with_args", s(tcx.def_path_str_with_args(*did, args))),
                ];
                if let Some(tr) = tcx.trait_of_assoc(*did) {
                    f.push(("trait", s(def_path(tcx, tr))));
                    f.push(("trait_krate", s(krate_of(tcx, tr))));
                    if let Some(st) = args.get(0).and_then(|a| a.as_type()) {
                        f.push(("self_ty", self.ty_j(st)));
                        f.push(("self_info", self.ty_info(st)));
                    }
                }
                if let Some(im) = tcx.impl_of_assoc(*did) {
                    let st = tcx.type_of(im).instantiate_identity().skip_norm_wip();
                    f.push(("impl_self", self.ty_j(st)));
                }
                let env = TypingEnv::post_analysis(tcx, owner);
                match Instance::try_resolve(tcx, env, *did, args) {
                    Ok(Some(inst)) => {
                        let rd = inst.def_id();
                        f.push(("resolved", s(def_path(tcx, rd))));
                        f.push(("resolved_krate", s(krate_of(tcx, rd))));
                        f.push(("resolved_kind", s(format!("{:?}", inst.def).split('(').next().unwrap_or("").to_string())));
                        f.push(("resolved_with_args", s(tcx.def_path_str_with_args(rd, inst.args))));
                        if let Some(im) = tcx.impl_of_assoc(rd) {
                            let st = tcx.type_of(im).instantiate_identity().skip_norm_wip();
                            f.push(("resolved_impl_self", self.ty_j(st)));
                            if let Some(tr) = tcx.impl_opt_trait_ref(im) {
                                f.push(("resolved_impl_trait", s(tr.instantiate_identity().skip_norm_wip().to_string())));
                            }
                        }
                    }
                    _ => f.push(("resolved", J::Null)),
                }
                J::Obj(f)
            }
            _ => obj! {
                "k": s("indirect"), "ty": self.ty_j(fty), "info": self.ty_info(fty),
                "op": self.operand_j(owner, body, func)
            },
        }
    }

    fn assert_j(&self, owner: DefId, body: &Body<'tcx>, msg: &AssertMessage<'tcx>) -> J {
        match msg {
            AssertKind::BoundsCheck { len, index } => obj! {
                "k": s("BoundsCheck"), "len": self.operand_j(owner, body, len),
                "index": self.operand_j(owner, body, index)
            },
            AssertKind::Overflow(op, a, bb) => obj! {
                "k": s("Overflow"), "op": s(format!("{:?}", op)),
                "a": self.operand_j(owner, body, a), "b": self.operand_j(owner, body, bb)
            },
            AssertKind::OverflowNeg(a) => {
                obj! {"k": s("OverflowNeg"), "a": self.operand_j(owner, body, a)}
            }
            AssertKind::DivisionByZero(a) => {
                obj! {"k": s("DivisionByZero"), "a": self.operand_j(owner, body, a)}
            }
            AssertKind::RemainderByZero(a) => {
                obj! {"k": s("RemainderByZero"), "a": self.operand_j(owner, body, a)}
            }
            other => obj! {"k": s(format!("{:?}", other).split(|c: char| !c.is_alphanumeric()).next().unwrap_or("other").to_string())},
        }
    }

    fn terminator_j(&self, owner: DefId, body: &Body<'tcx>, t: &Terminator<'tcx>) -> J {
        let tcx = self.tcx;
        let unwind_j = |u: &UnwindAction| match u {
            UnwindAction::Cleanup(bb) => i(bb.as_u32()),
            _ => J::Null,
        };
        let sp = span_j(tcx, t.source_info.span);
        match &t.kind {
            TerminatorKind::Goto { target } => {
                obj! {"k": s("goto"), "target": i(target.as_u32()), "span": sp}
            }
            TerminatorKind::SwitchInt { discr, targets } => obj! {
                "k": s("switch"), "discr": self.operand_j(owner, body, discr),
                "discr_ty": self.ty_j(discr.ty(body, tcx)),
                "targets": arr(targets.iter().map(|(v, bb)| arr([
                    if v <= i128::MAX as u128 { J::Int(v as i128) } else { s(v.to_string()) },
                    i(bb.as_u32())]))),
                "otherwise": i(targets.otherwise().as_u32()), "span": sp
            },
            TerminatorKind::UnwindResume => obj! {"k": s("resume"), "span": sp},
            TerminatorKind::UnwindTerminate(_) => obj! {"k": s("terminate"), "span": sp},
            TerminatorKind::Return => obj! {"k": s("return"), "span": sp},
            TerminatorKind::Unreachable => obj! {"k": s("unreachable"), "span": sp},
            TerminatorKind::Drop { place, target, unwind, .. } => obj! {
                "k": s("drop"), "place": self.place_j(body, place),
                "ty": self.ty_j(place.ty(body, tcx).ty),
                "target": i(target.as_u32()), "unwind": unwind_j(unwind), "span": sp
            },
            TerminatorKind::Call { func, args, destination, target, unwind, fn_span, .. } => obj! {
                "k": s("call"), "callee": self.callee_j(owner, body, func),
                "args": arr(args.iter().map(|a| self.operand_j(owner, body, &a.node))),
                "arg_tys": arr(args.iter().map(|a| self.ty_info(a.node.ty(body, tcx)))),
                "dest": self.place_j(body, destination),
                "dest_ty": self.ty_j(destination.ty(body, tcx).ty),
                "target": opt(target.map(|t| i(t.as_u32()))),
                "unwind": unwind_j(unwind),
                "fn_span": span_j(tcx, *fn_span), "span": sp
            },
            TerminatorKind::TailCall { func, args, .. } => obj! {
                "k": s("tailcall"), "callee": self.callee_j(owner, body, func),
                "args": arr(args.iter().map(|a| self.operand_j(owner, body, &a.node))),
                "span": sp
            },
            TerminatorKind::Assert { cond, expected, msg, target, unwind } => obj! {
                "k": s("assert"), "cond": self.operand_j(owner, body, cond),
                "expected": b(*expected), "msg": self.assert_j(owner, body, msg),
                "target": i(target.as_u32()), "unwind": unwind_j(unwind), "span": sp
            },
            TerminatorKind::FalseEdge { real_target, .. } => {
                obj! {"k": s("goto"), "target": i(real_target.as_u32()), "span": sp}
            }
            TerminatorKind::FalseUnwind { real_target, .. } => {
                obj! {"k": s("goto"), "target": i(real_target.as_u32()), "span": sp}
            }
            other => obj! {"k": s("other"), "dbg": s(format!("{:?}", other)), "span": sp},
        }
    }

    fn body_blocks(&self, owner: DefId, body: &Body<'tcx>) -> (J, J) {
        let tcx = self.tcx;
        let mut names: BTreeMap<u32, String> = BTreeMap::new();
        let mut debug = Vec::new();
        for vdi in &body.var_debug_info {
            match &vdi.value {
                VarDebugInfoContents::Place(p) => {
                    if p.projection.is_empty() {
                        names.entry(p.local.as_u32()).or_insert(vdi.name.to_string());
                    }
                    debug.push(obj! {
                        "name": s(vdi.name.to_string()), "place": self.place_j(body, p),
                        "arg": opt(vdi.argument_index.map(|a| i(a as i64)))
                    });
                }
                VarDebugInfoContents::Const(_) => {
                    debug.push(obj! {"name": s(vdi.name.to_string()), "const": b(true)});
                }
            }
        }
        let locals = arr(body.local_decls.iter_enumerated().map(|(l, d)| {
            obj! {
                "ty": self.ty_j(d.ty), "info": self.ty_info(d.ty),
                "name": opt(names.get(&l.as_u32()).map(|n| s(n.clone()))),
                "mut": b(d.mutability.is_mut())
            }
        }));
        let blocks = arr(body.basic_blocks.iter().map(|bb| {
            let stmts = arr(bb.statements.iter().filter_map(|st| match &st.kind {
                StatementKind::Assign(pr) => Some(obj! {
                    "k": s("assign"), "place": self.place_j(body, &pr.0),
                    "rv": self.rvalue_j(owner, body, &pr.1),
                    "span": span_j(tcx, st.source_info.span)
                }),
                StatementKind::SetDiscriminant { place, variant_index } => Some(obj! {
                    "k": s("setdiscr"), "place": self.place_j(body, place),
                    "vidx": i(variant_index.as_u32()),
                    "span": span_j(tcx, st.source_info.span)
                }),
                StatementKind::Intrinsic(ni) => Some(obj! {
                    "k": s("intrinsic"), "dbg": s(format!("{:?}", ni)),
                    "span": span_j(tcx, st.source_info.span)
                }),
                _ => None,
            }));
            obj! {
                "cleanup": b(bb.is_cleanup), "stmts": stmts,
                "term": self.terminator_j(owner, body, bb.terminator())
            }
        }));
        (obj! {"locals": locals, "debug": J::Arr(debug)}, blocks)
    }

    fn body_j(&self, ldid: LocalDefId) -> Option<J> {
        let tcx = self.tcx;
        let did = ldid.to_def_id();
        let kind = tcx.def_kind(did);
        let is_fn_like = matches!(kind, DefKind::Fn | DefKind::AssocFn | DefKind::Closure);
        if !is_fn_like {
            return None;
        }
        if !tcx.is_mir_available(did) {
            return None;
        }
        let body = tcx.optimized_mir(did);
        let (hdr, blocks) = self.body_blocks(did, body);
        let promoted = arr(tcx.promoted_mir(did).iter().map(|pb| {
            let (h, bl) = self.body_blocks(did, pb);
            obj! {"hdr": h, "blocks": bl, "ret_ty": self.ty_j(pb.return_ty())}
        }));
        let parent = match kind {
            DefKind::Closure => Some(def_path(tcx, tcx.typeck_root_def_id(did))),
            _ => None,
        };
        let direct_parent = match kind {
            DefKind::Closure => Some(def_path(tcx, tcx.parent(did))),
            _ => None,
        };
        let vis = match kind {
            DefKind::Fn | DefKind::AssocFn => {
                let v = tcx.visibility(did);
                Some(if v.is_public() { "pub".to_string() } else { format!("{:?}", v) })
            }
            _ => None,
        };
        let effective_pub = match kind {
            DefKind::Fn | DefKind::AssocFn => {
                tcx.effective_visibilities(()).is_reachable(ldid)
            }
            _ => false,
        };
        let impl_info = match kind {
            DefKind::AssocFn => {
                let par = tcx.parent(did);
                match tcx.def_kind(par) {
                    DefKind::Impl { of_trait } => {
                        let st = tcx.type_of(par).instantiate_identity().skip_norm_wip();
                        let tr = if of_trait {
                            tcx.impl_opt_trait_ref(par)
                                .map(|t| t.instantiate_identity().skip_norm_wip().to_string())
                        } else {
                            None
                        };
                        let trd = if of_trait {
                            tcx.impl_opt_trait_ref(par).map(|t| t.skip_binder().def_id)
                        } else {
                            None
                        };
                        Some(obj! {
                            "self_ty": self.ty_j(st), "trait": opt(tr.map(s)),
                            "trait_path": opt(trd.map(|d| s(def_path(tcx, d)))),
                            "trait_krate": opt(trd.map(|d| s(krate_of(tcx, d)))),
                            "derived": b(tcx.is_automatically_derived(par)),
                            "impl_def": s(def_path(tcx, par))
                        })
                    }
                    DefKind::Trait => Some(obj! {
                        "self_ty": J::Null, "trait": s(def_path(tcx, par)),
                        "trait_path": s(def_path(tcx, par)),
                        "trait_krate": s(krate_of(tcx, par)),
                        "derived": b(false), "impl_def": s(def_path(tcx, par)),
                        "provided": b(true)
                    }),
                    _ => None,
                }
            }
            _ => None,
        };
        let generics = tcx.generics_of(did);
        let mut gnames = Vec::new();
        {
            let mut g = Some(generics);
            let mut stack = Vec::new();
            while let Some(gg) = g {
                stack.push(gg);
                g = gg.parent.map(|p| tcx.generics_of(p));
            }
            for gg in stack.iter().rev() {
                for p in &gg.own_params {
                    gnames.push(s(p.name.to_string()));
                }
            }
        }
        let sig_unsafe = match kind {
            DefKind::Fn | DefKind::AssocFn => {
                tcx.fn_sig(did).instantiate_identity().skip_norm_wip().safety().is_unsafe()
            }
            _ => false,
        };
        Some(obj! {
            "path": s(def_path(tcx, did)),
            "kind": s(format!("{:?}", kind)),
            "parent": opt(parent.map(s)),
            "direct_parent": opt(direct_parent.map(s)),
            "vis": opt(vis.map(s)),
            "reachable": b(effective_pub),
            "impl": opt(impl_info),
            "generics": J::Arr(gnames),
            "unsafe_fn": b(sig_unsafe),
            "argc": i(body.arg_count as i64),
            "ret_ty": self.ty_j(body.return_ty()),
            "span": span_j(tcx, body.span),
            "hdr": hdr,
            "blocks": blocks,
            "promoted": promoted
        })
    }

    // -------------------------------------------------------------------------------------
    // type facts

    fn deep_walk(
        &self,
        ty: Ty<'tcx>,
        path: &mut Vec<String>,
        seen: &mut HashSet<Ty<'tcx>>,
        hits: &mut Vec<J>,
        depth: usize,
    ) {
        let tcx = self.tcx;
        if depth > 40 || !seen.insert(ty) {
            return;
        }
        match ty.kind() {
            ty::Adt(adt, args) => {
                let name = def_path(tcx, adt.did());
                if adt.is_unsafe_cell() {
                    hits.push(obj! {"what": s("UnsafeCell"), "via": arr(path.iter().map(|p| s(p.clone()))), "ty": s(ty.to_string())});
                    return;
                }
                path.push(name);
                for v in adt.variants() {
                    for f in &v.fields {
                        let fty = f.ty(tcx, args);
                        let fty = tcx
                            .try_normalize_erasing_regions(TypingEnv::fully_monomorphized(), ty::Unnormalized::new(fty))
                            .unwrap_or(fty);
                        path.push(format!(".{}", f.name));
                        self.deep_walk(fty, path, seen, hits, depth + 1);
                        path.pop();
                    }
                }
                for a in args.iter() {
                    if let Some(t) = a.as_type() {
                        path.push("<arg>".to_string());
                        self.deep_walk(t, path, seen, hits, depth + 1);
                        path.pop();
                    }
                }
                path.pop();
            }
            ty::Ref(_, t, _) | ty::Slice(t) | ty::Array(t, _) => {
                self.deep_walk(*t, path, seen, hits, depth + 1)
            }
            ty::RawPtr(t, _) => {
                hits.push(obj! {"what": s("rawptr"), "via": arr(path.iter().map(|p| s(p.clone()))), "ty": s(t.to_string())});
            }
            ty::Tuple(ts) => {
                for t in ts.iter() {
                    self.deep_walk(t, path, seen, hits, depth + 1);
                }
            }
            ty::Closure(_, cargs) => {
                for t in cargs.as_closure().upvar_tys().iter() {
                    self.deep_walk(t, path, seen, hits, depth + 1);
                }
            }
            ty::Dynamic(..) => {
                hits.push(obj! {"what": s("dyn"), "via": arr(path.iter().map(|p| s(p.clone()))), "ty": s(ty.to_string())});
            }
            ty::FnPtr(..) => {
                hits.push(obj! {"what": s("fnptr"), "via": arr(path.iter().map(|p| s(p.clone()))), "ty": s(ty.to_string())});
            }
            ty::Param(_) | ty::Alias(..) => {
                hits.push(obj! {"what": s("opaque"), "via": arr(path.iter().map(|p| s(p.clone()))), "ty": s(ty.to_string())});
            }
            _ => {}
        }
    }

    fn implements(&self, ty: Ty<'tcx>, trait_did: DefId, owner: DefId) -> bool {
        use rustc_infer::infer::TyCtxtInferExt;
        use rustc_trait_selection::infer::InferCtxtExt;
        let tcx = self.tcx;
        let env = TypingEnv::post_analysis(tcx, owner);
        let (infcx, param_env) = tcx.infer_ctxt().build_with_typing_env(env);
        infcx
            .type_implements_trait(trait_did, [ty], param_env)
            .must_apply_modulo_regions()
    }

    fn adt_j(&self, ldid: LocalDefId) -> J {
        let tcx = self.tcx;
        let did = ldid.to_def_id();
        let adt = tcx.adt_def(did);
        let ty = tcx.type_of(did).instantiate_identity().skip_norm_wip();
        let generics = tcx.generics_of(did);
        let has_ty_params = generics.own_params.iter().any(|p| {
            matches!(p.kind, ty::GenericParamDefKind::Type { .. } | ty::GenericParamDefKind::Const { .. })
        });
        let variants = arr(adt.variants().iter().map(|v| {
            obj! {
                "name": s(v.name.to_string()),
                "fields": arr(v.fields.iter().map(|f| {
                    let fty = tcx.type_of(f.did).instantiate_identity().skip_norm_wip();
                    let vis = tcx.visibility(f.did);
                    obj!{
                        "name": s(f.name.to_string()), "ty": self.ty_j(fty),
                        "info": self.ty_info(fty),
                        "vis": s(if vis.is_public() { "pub".to_string() } else { format!("{:?}", vis) })
                    }
                }))
            }
        }));
        let mut hits = Vec::new();
        self.deep_walk(ty, &mut Vec::new(), &mut HashSet::new(), &mut hits, 0);
        let lang = |name: rustc_hir::LangItem| tcx.lang_items().get(name);
        let env = TypingEnv::post_analysis(tcx, did);
        let mut traits: Vec<(&'static str, J)> = Vec::new();
        traits.push(("Freeze", b(ty.is_freeze(tcx, env))));
        if let Some(d) = lang(rustc_hir::LangItem::Sync) {
            traits.push(("Sync", b(self.implements(ty, d, did))));
        }
        if let Some(d) = tcx.get_diagnostic_item(rustc_span::sym::Send) {
            traits.push(("Send", b(self.implements(ty, d, did))));
        }
        if let Some(d) = lang(rustc_hir::LangItem::Clone) {
            traits.push(("Clone", b(self.implements(ty, d, did))));
        }
        if let Some(d) = lang(rustc_hir::LangItem::Copy) {
            traits.push(("Copy", b(self.implements(ty, d, did))));
        }
        let vis = tcx.visibility(did);
        obj! {
            "path": s(def_path(tcx, did)),
            "kind": s(if adt.is_enum() { "enum" } else if adt.is_union() { "union" } else { "struct" }),
            "generic": b(has_ty_params),
            "vis": s(if vis.is_public() { "pub".to_string() } else { format!("{:?}", vis) }),
            "reachable": b(tcx.effective_visibilities(()).is_reachable(ldid)),
            "variants": variants,
            "deep": J::Arr(hits),
            "traits": J::Obj(traits),
            "span": span_j(tcx, tcx.def_span(did))
        }
    }

    fn impl_j(&self, ldid: LocalDefId) -> J {
        let tcx = self.tcx;
        let did = ldid.to_def_id();
        let st = tcx.type_of(did).instantiate_identity().skip_norm_wip();
        let tr = tcx
            .impl_opt_trait_ref(did)
            .map(|t| t.instantiate_identity().skip_norm_wip());
        let self_adt = match st.kind() {
            ty::Adt(a, _) => Some(def_path(tcx, a.did())),
            _ => None,
        };
        let is_unsafe = tr.is_some() && tcx.impl_trait_header(did).safety.is_unsafe();
        obj! {
            "def": s(def_path(tcx, did)),
            "self_ty": self.ty_j(st),
            "self_adt": opt(self_adt.map(s)),
            "trait": opt(tr.map(|t| s(def_path(tcx, t.def_id)))),
            "trait_ref": opt(tr.map(|t| s(t.to_string()))),
            "derived": b(tcx.is_automatically_derived(did)),
            "unsafe": b(is_unsafe),
            "items": arr(tcx.associated_item_def_ids(did).iter().map(|d| s(def_path(tcx, *d)))),
            "span": span_j(tcx, tcx.def_span(did))
        }
    }

    fn const_item_j(&self, ldid: LocalDefId, kind: DefKind) -> J {
        let tcx = self.tcx;
        let did = ldid.to_def_id();
        let ty = tcx.type_of(did).instantiate_identity().skip_norm_wip();
        let mut f: Vec<(&'static str, J)> = vec![
            ("path", s(def_path(tcx, did))),
            ("kind", s(format!("{:?}", kind))),
            ("ty", self.ty_j(ty)),
            ("span", span_j(tcx, tcx.def_span(did))),
        ];
        if tcx.generics_of(did).is_empty() && !ty.has_param() {
            if let Ok(val) = tcx.const_eval_poly(did) {
                self.constvalue_fields(&mut f, val, ty);
            }
        }
        J::Obj(f)
    }

    fn static_j(&self, ldid: LocalDefId) -> J {
        let tcx = self.tcx;
        let did = ldid.to_def_id();
        let ty = tcx.type_of(did).instantiate_identity().skip_norm_wip();
        let env = TypingEnv::post_analysis(tcx, did);
        obj! {
            "path": s(def_path(tcx, did)),
            "ty": self.ty_j(ty),
            "mutable": b(tcx.is_mutable_static(did)),
            "thread_local": b(tcx.is_thread_local_static(did)),
            "freeze": b(ty.is_freeze(tcx, env)),
            "span": span_j(tcx, tcx.def_span(did))
        }
    }
}

// ---------------------------------------------------------------------------------------
// unsafe usage from HIR

struct UnsafeVisitor<'tcx> {
    tcx: TyCtxt<'tcx>,
    out: Vec<J>,
}

impl<'tcx> rustc_hir::intravisit::Visitor<'tcx> for UnsafeVisitor<'tcx> {
    type NestedFilter = rustc_middle::hir::nested_filter::All;

    fn maybe_tcx(&mut self) -> Self::MaybeTyCtxt {
        self.tcx
    }

    fn visit_block(&mut self, blk: &'tcx rustc_hir::Block<'tcx>) {
        if let rustc_hir::BlockCheckMode::UnsafeBlock(src) = blk.rules {
            let owner = self.tcx.hir_enclosing_body_owner(blk.hir_id);
            self.out.push(obj! {
                "what": s("unsafe_block"),
                "user": b(matches!(src, rustc_hir::UnsafeSource::UserProvided)),
                "in": s(def_path(self.tcx, owner.to_def_id())),
                "span": span_j(self.tcx, blk.span)
            });
        }
        rustc_hir::intravisit::walk_block(self, blk);
    }
}

fn export<'tcx>(tcx: TyCtxt<'tcx>, krate: &str) -> J {
    let cx = Cx { tcx };
    let mut bodies = Vec::new();
    let mut adts = Vec::new();
    let mut impls = Vec::new();
    let mut consts = Vec::new();
    let mut statics = Vec::new();
    let mut unsafe_items = Vec::new();
    let mut mods = Vec::new();

    for ldid in tcx.hir_body_owners() {
        if let Some(bj) = cx.body_j(ldid) {
            bodies.push(bj);
        }
    }
    for ldid in tcx.hir_crate_items(()).definitions() {
        let did = ldid.to_def_id();
        let kind = tcx.def_kind(did);
        match kind {
            DefKind::Struct | DefKind::Enum | DefKind::Union => adts.push(cx.adt_j(ldid)),
            DefKind::Impl { .. } => {
                let ij = cx.impl_j(ldid);
                if let J::Obj(ref f) = ij {
                    if f.iter().any(|(k, v)| *k == "unsafe" && matches!(v, J::Bool(true))) {
                        unsafe_items.push(obj! {
                            "what": s("unsafe_impl"),
                            "user": b(!tcx.def_span(did).from_expansion()),
                            "in": s(def_path(tcx, did)),
                            "span": span_j(tcx, tcx.def_span(did))
                        });
                    }
                }
                impls.push(ij);
            }
            DefKind::Const { .. } | DefKind::AssocConst { .. } => {
                consts.push(cx.const_item_j(ldid, kind))
            }
            DefKind::Static { .. } => statics.push(cx.static_j(ldid)),
            DefKind::Fn | DefKind::AssocFn => {
                if tcx.fn_sig(did).instantiate_identity().skip_norm_wip().safety().is_unsafe() {
                    unsafe_items.push(obj! {
                        "what": s("unsafe_fn"),
                        "user": b(!tcx.def_span(did).from_expansion()),
                        "in": s(def_path(tcx, did)),
                        "span": span_j(tcx, tcx.def_span(did))
                    });
                }
            }
            DefKind::Mod => mods.push(s(def_path(tcx, did))),
            DefKind::Trait => {
                if tcx.trait_def(did).safety.is_unsafe() {
                    unsafe_items.push(obj! {
                        "what": s("unsafe_trait"), "user": b(true),
                        "in": s(def_path(tcx, did)),
                        "span": span_j(tcx, tcx.def_span(did))
                    });
                }
            }
            _ => {}
        }
    }
    let mut uv = UnsafeVisitor { tcx, out: Vec::new() };
    tcx.hir_visit_all_item_likes_in_crate(&mut uv);
    unsafe_items.extend(uv.out);

    let features: Vec<J> = tcx
        .sess
        .opts
        .cg
        .target_feature
        .split(',')
        .filter(|x| !x.is_empty())
        .map(|x| s(x.to_string()))
        .collect();
    let cfgs: Vec<J> = tcx
        .sess
        .config
        .iter()
        .filter(|(k, _)| k.as_str() == "feature" || k.as_str() == "test" || k.as_str() == "debug_assertions" || k.as_str() == "overflow_checks")
        .map(|(k, v)| s(match v { Some(v) => format!("{}={}", k, v), None => k.to_string() }))
        .collect();

    obj! {
        "crate": s(krate),
        "nonce": s(std::env::var("JBV_NONCE").unwrap_or_default()),
        "rustc": s(rustc_interface::util::rustc_version_str().unwrap_or("?")),
        "overflow_checks": b(tcx.sess.overflow_checks()),
        "mir_opt_level": i(tcx.sess.mir_opt_level() as i64),
        "target_features": J::Arr(features),
        "cfg": J::Arr(cfgs),
        "bodies": J::Arr(bodies),
        "adts": J::Arr(adts),
        "impls": J::Arr(impls),
        "consts": J::Arr(consts),
        "statics": J::Arr(statics),
        "unsafe": J::Arr(unsafe_items),
        "mods": J::Arr(mods)
    }
}
